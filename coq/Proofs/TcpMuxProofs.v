(* C15: invariants of the TCP mux machine (Model/TcpMux.v) over ALL label lists, i.e. all
   interleavings of API calls, client behaviour, timers and the mux's own goroutine steps. *)
From Coq Require Import ZArith Bool String Ascii List Arith Lia.
From Ice Require Import Gen.Consts Model.PrioSpec Model.TcpMux.
Import ListNotations.

Section WithCfg.
Variable cf : cfg.

Notation stp := (step cf).
Definition next (s : state) (o : op) : state := fst (step cf s o).

Lemma run_nil : forall s, run cf s [] = s.
Proof. reflexivity. Qed.
Lemma run_cons : forall s o l, run cf s (o :: l) = run cf (next s o) l.
Proof. reflexivity. Qed.
Lemma run_app : forall l1 l2 s, run cf s (l1 ++ l2) = run cf (run cf s l1) l2.
Proof. intros; unfold run; apply fold_left_app. Qed.
Lemma run_snoc : forall l o s, run cf s (l ++ [o]) = next (run cf s l) o.
Proof. intros; rewrite run_app; reflexivity. Qed.

Lemma memb_In : forall k l, memb k l = true <-> In k l.
Proof.
  intros; unfold memb; rewrite existsb_exists; split.
  - intros [x [Hin He]]; apply Nat.eqb_eq in He; subst; auto.
  - intros; exists k; split; auto; apply Nat.eqb_refl.
Qed.

Lemma oeqb_true : forall o p, oeqb o p = true <-> o = Some p.
Proof.
  intros [q|] p; simpl; split; intro H; try discriminate.
  - apply Nat.eqb_eq in H; subst; auto.
  - inversion H; apply Nat.eqb_refl.
Qed.

Lemma lookup_some : forall s u f i p, lookup cf s u f i = Some p ->
  mp s u f i = Some p /\ (cf_byid cf = true -> p_closed (pc s p) = false).
Proof.
  intros s u f i p. unfold lookup. destruct (mp s u f i) as [q|]; [|discriminate].
  destruct (cf_byid cf && p_closed (pc s q))%bool eqn:E; [discriminate|].
  intros H; inversion H; subst. split; auto. intros Hb. rewrite Hb in E. simpl in E. auto.
Qed.

Lemma lookup_none : forall s u f i, lookup cf s u f i = None ->
  forall p, mp s u f i = Some p -> p_closed (pc s p) = true /\ cf_byid cf = true.
Proof.
  intros s u f i. unfold lookup. destruct (mp s u f i) as [q|]; [|discriminate].
  destruct (cf_byid cf && p_closed (pc s q))%bool eqn:E; [|discriminate].
  intros _ p H; inversion H; subst. apply andb_true_iff in E. tauto.
Qed.

(* ------------------------------------------------------------------------------------------ *)
(* The invariant *)

Definition prefix_ok (c : tconn) : Prop := exists rest, c_msgs c = c_got c ++ rest.

Definition held (c : tconn) : list string :=
  match c_hold c with Some (IData b) => [b] | _ => [] end.

(* everything the invariant says about one TCP connection value c, given the packet conns *)
Record conn_ok (n : nat) (pcs : nat -> pconn) (c : tconn) : Prop := mkCok {
  k_att : forall p, c_att c = Some p ->
      p < n /\ p_closed (pcs p) = false /\ c_srv_closed c = false /\ c_reader c = Some p;
  k_rd : forall p, c_reader c = Some p ->
      p < n /\ p_closed (pcs p) = false /\ c_route c = Some p /\ c_phase c = PDone;
  k_hold : c_hold c <> None -> c_reader c <> None;
  k_oconn : c_srv_closed c = false -> c_phase c <> PDone \/ c_att c <> None;
  k_routed : forall p b, c_phase c = PRouted p b ->
      p < n /\ c_route c = Some p /\ c_srv_closed c = false /\ c_att c = None /\
      c_reader c = None /\ c_hold c = None /\ c_got c = [] /\
      c_msgs c = b :: c_stream c /\ c_rejected c = false;
  k_pend : c_phase c = PPending ->
      c_srv_closed c = false /\ c_att c = None /\ c_reader c = None /\
      c_hold c = None /\ c_route c = None /\ c_got c = [] /\
      c_dl c = cf_first_timeout cf /\ c_rejected c = false /\ c_stream c = [] /\ c_msgs c = [];
  k_rej : c_rejected c = true ->
      c_srv_closed c = true /\ c_phase c = PDone /\ c_att c = None /\
      c_reader c = None /\ c_got c = [] /\ c_route c = None;
  k_noroute : c_route c = None -> c_got c = [] /\ c_reader c = None /\ c_att c = None;
  k_prefix : prefix_ok c;
  k_exact : forall p, c_reader c = Some p ->
      match c_hold c with
      | Some (IErr _) => True
      | _ => c_msgs c = c_got c ++ held c ++ c_stream c
      end;
  k_err : forall e, c_hold c = Some (IErr e) -> c_att c = None /\ c_srv_closed c = true;
  k_route_lt : forall p, c_route c = Some p -> p < n
}.

Record Inv (s : state) : Prop := mkInv {
  i_npc : forall p, npc s <= p -> pc s p = dead_pc;
  i_cid : forall k, ~ In k (cids s) -> conn s k = dead_conn;
  i_conn : forall k, conn_ok (npc s) (pc s) (conn s k);
  i_open : forall p, p_closed (pc s p) = false ->
      p < npc s /\ p_watcher (pc s p) = true /\ mp s (p_ufrag (pc s p)) (p_is6 (pc s p)) (p_ip (pc s p)) = Some p;
  i_mp : forall u f i p, mp s u f i = Some p ->
      p < npc s /\ p_ufrag (pc s p) = u /\ p_is6 (pc s p) = f /\ p_ip (pc s p) = i;
  i_timer : forall p, p_timer (pc s p) = true -> p_closed (pc s p) = false /\ p_stun (pc s p) = true;
  i_uniq : forall k k' p, c_att (conn s k) = Some p -> c_att (conn s k') = Some p ->
      c_raddr (conn s k) = c_raddr (conn s k') -> k = k';
  i_closed : mclosed s = true -> lopen s = false;
  i_closing : closing s = true -> mclosed s = true;
  i_ret : creturned s = true ->
      closing s = true /\ acc_alive s = false /\ (forall k, c_phase (conn s k) = PDone) /\
      (forall p, p_watcher (pc s p) = false);
  i_post : mclosed s = true -> forall p, p_closed (pc s p) = false -> p_timer (pc s p) = cf_alive cf;
  i_hnd : forall h p b, hnd s h = Some (p, b) -> p < npc s;
  i_cm : forall u f i p, mp s u f i = Some p -> p_closed (pc s p) = true -> p_watcher (pc s p) = true
}.

Lemma dead_conn_ok : forall n pcs, conn_ok n pcs dead_conn.
Proof.
  intros; constructor; simpl; intros; try discriminate; try tauto; auto.
  exists []; reflexivity.
Qed.

Lemma inv_init : Inv init.
Proof.
  constructor; simpl; intros; try discriminate; try tauto; auto.
  apply dead_conn_ok.
Qed.


(* ------------------------------------------------------------------------------------------ *)
(* generic preservation lemmas *)

Lemma conn_ok_ext : forall n pcs pcs' c,
  (forall p, p_closed (pcs' p) = p_closed (pcs p)) -> conn_ok n pcs c -> conn_ok n pcs' c.
Proof.
  intros n pcs pcs' c E [A B C D F G H I J K L M]; constructor; auto; intros.
  - rewrite E; auto.
  - rewrite E; auto.
Qed.

Lemma conn_ok_grow : forall n pcs q c, conn_ok n pcs c -> conn_ok (S n) (upd pcs n q) c.
Proof.
  intros n pcs q c [A B C D F G H I J K L0 M0]; constructor; auto; intros.
  - destruct (A _ H0) as (L & M & N & O); repeat split; auto.
    unfold upd; destruct (Nat.eqb p n) eqn:E; auto. apply Nat.eqb_eq in E; lia.
  - destruct (B _ H0) as (L & M & N & O); repeat split; auto.
    unfold upd; destruct (Nat.eqb p n) eqn:E; auto. apply Nat.eqb_eq in E; lia.
  - destruct (F _ _ H0) as (L & M); split; auto.
  - apply M0 in H0. lia.
Qed.

Ltac fwd :=
  repeat match goal with
  | H : ?P -> _, H' : ?P |- _ => match type of P with Prop => specialize (H H') end
  | H : forall p, Some ?a = Some p -> _ |- _ => specialize (H a eq_refl)
  | H : forall p, ?x = Some p -> _, H' : ?x = Some ?a |- _ => specialize (H a H')
  | H : forall p b, ?x = PRouted p b -> _, H' : ?x = PRouted ?a ?c |- _ => specialize (H a c H')
  | H : forall e, ?x = Some (IErr e) -> _, H' : ?x = Some (IErr ?a) |- _ => specialize (H a H')
  | H : _ /\ _ |- _ => destruct H
  | H : Some _ = Some _ |- _ => inversion H; subst; clear H
  | H : PRouted _ _ = PRouted _ _ |- _ => inversion H; subst; clear H
  | H : ?x = ?x -> _ |- _ => specialize (H eq_refl)
  end.
Ltac fin := try discriminate; try congruence; try tauto; auto; try (left; discriminate); try (right; discriminate).

Lemma conn_ok_close : forall n pcs sel c,
  conn_ok n pcs c -> conn_ok n (fun q => close_pc_of sel q (pcs q)) (close_conn_of sel c).
Proof.
  intros n pcs sel c [A B C D F G H I J K L0 M].
  unfold close_conn_of, close_pc_of.
  destruct (c_att c) as [a|] eqn:Ea.
  - (* attached to a (hence its reader belongs to a) *)
    destruct (A a eq_refl) as (A1 & A2 & A3 & A4).
    rewrite A4 in *.
    destruct (sel a) eqn:Es; constructor; simpl; rewrite ?Es; intros; fwd; rewrite ?Es; fin;
      try (repeat split; fin).
  - destruct (c_reader c) as [r|] eqn:Er.
    + destruct (sel r) eqn:Es; constructor; simpl; rewrite ?Es; intros; fwd; rewrite ?Es; fin;
        try (repeat split; fin).
    + constructor; simpl; intros; fwd; fin.
Qed.

Lemma inv_set_one : forall s k c',
  Inv s -> In k (cids s) -> conn_ok (npc s) (pc s) c' ->
  (forall p k', c_att c' = Some p -> k' <> k -> c_att (conn s k') = Some p -> c_raddr c' <> c_raddr (conn s k')) ->
  (creturned s = true -> c_phase c' = PDone) ->
  Inv (set_one s k c').
Proof.
  intros s k c' I Hin Hok Hu Hr. destruct I.
  constructor; unfold set_one, set_conn; simpl; auto.
  - intros k0 Hn. unfold upd. destruct (Nat.eqb k0 k) eqn:E; auto.
    apply Nat.eqb_eq in E; subst; tauto.
  - intros k0. unfold upd. destruct (Nat.eqb k0 k); auto.
  - intros k1 k2 p. unfold upd.
    destruct (Nat.eqb k1 k) eqn:E1; destruct (Nat.eqb k2 k) eqn:E2; intros A1 A2 R.
    + apply Nat.eqb_eq in E1, E2; congruence.
    + apply Nat.eqb_eq in E1; apply Nat.eqb_neq in E2. exfalso; eapply Hu; eauto.
    + apply Nat.eqb_eq in E2; apply Nat.eqb_neq in E1. exfalso; eapply Hu; eauto.
    + eauto.
  - intros Hc. destruct (i_ret0 Hc) as (A & B & C & D). repeat split; auto.
    intros k0. unfold upd. destruct (Nat.eqb k0 k); auto.
Qed.

Lemma close_pc_of_dead : forall sel q, close_pc_of sel q dead_pc = dead_pc.
Proof. intros; unfold close_pc_of; destruct (sel q); reflexivity. Qed.

Lemma close_pc_of_closed : forall sel q p, p_closed (close_pc_of sel q p) = false -> sel q = false /\ p_closed p = false.
Proof. intros sel q p; unfold close_pc_of; destruct (sel q); simpl; intros; auto; discriminate. Qed.

Lemma close_pc_of_keep : forall sel q p, sel q = false -> close_pc_of sel q p = p.
Proof. intros; unfold close_pc_of; rewrite H; auto. Qed.

Lemma close_pc_of_key : forall sel q p,
  p_ufrag (close_pc_of sel q p) = p_ufrag p /\ p_is6 (close_pc_of sel q p) = p_is6 p /\
  p_ip (close_pc_of sel q p) = p_ip p /\ p_watcher (close_pc_of sel q p) = p_watcher p /\
  p_stun (close_pc_of sel q p) = p_stun p.
Proof. intros; unfold close_pc_of; destruct (sel q); simpl; auto. Qed.

Lemma close_conn_of_att : forall sel c p, c_att (close_conn_of sel c) = Some p -> c_att c = Some p.
Proof.
  intros sel c p; unfold close_conn_of; simpl. destruct (c_att c) as [a|]; auto.
  destruct (sel a); auto; discriminate.
Qed.

Lemma inv_close_pcs : forall s sel m',
  Inv s ->
  (forall u f i p, m' u f i = Some p -> mp s u f i = Some p) ->
  (forall q, p_closed (pc s q) = false -> sel q = false ->
             m' (p_ufrag (pc s q)) (p_is6 (pc s q)) (p_ip (pc s q)) = Some q) ->
  Inv (set_mp (close_pcs s sel) m').
Proof.
  intros s sel m' I C1 C2. destruct I.
  constructor; unfold set_mp, close_pcs, set_pc, set_conn; simpl; auto.
  - intros p Hp. rewrite i_npc0 by auto. apply close_pc_of_dead.
  - intros k Hk. rewrite i_cid0 by auto. unfold close_conn_of; simpl. reflexivity.
  - intros k. apply conn_ok_close; auto.
  - intros p Hp. apply close_pc_of_closed in Hp. destruct Hp as [Hs Ho].
    rewrite (close_pc_of_keep _ _ _ Hs). destruct (i_open0 p Ho) as (A & B & C). repeat split; auto.
  - intros u f i p Hm. apply C1 in Hm. destruct (i_mp0 _ _ _ _ Hm) as (A & B & C & D).
    destruct (close_pc_of_key sel p (pc s p)) as (E1 & E2 & E3 & _). rewrite E1, E2, E3. auto.
  - intros p Hp. unfold close_pc_of in *. destruct (sel p); simpl in *; [discriminate|]. auto.
  - intros k k' p A1 A2 R. apply close_conn_of_att in A1. apply close_conn_of_att in A2.
    unfold close_conn_of in R; simpl in R. eauto.
  - intros Hc. destruct (i_ret0 Hc) as (A & B & C & D). repeat split; auto.
    intros p. destruct (close_pc_of_key sel p (pc s p)) as (_ & _ & _ & E & _). rewrite E; auto.
  - intros Hc p Hp. apply close_pc_of_closed in Hp. destruct Hp as [Hs Ho].
    rewrite (close_pc_of_keep _ _ _ Hs). auto.
  - intros u f i p Hm Hc. apply C1 in Hm.
    destruct (close_pc_of_key sel p (pc s p)) as (_ & _ & _ & E & _). rewrite E.
    destruct (p_closed (pc s p)) eqn:Ho; [eapply i_cm0; eauto | apply (i_open0 p Ho)].
Qed.

Lemma inv_set_hnd : forall s hf,
  Inv s -> (forall h p b, hf h = Some (p, b) -> p < npc s) -> Inv (set_hnd s hf).
Proof. intros s hf I H; destruct I; constructor; unfold set_hnd; simpl; auto. Qed.

Lemma inv_set_pc : forall s p q',
  Inv s -> p < npc s ->
  p_closed q' = p_closed (pc s p) -> p_ufrag q' = p_ufrag (pc s p) -> p_is6 q' = p_is6 (pc s p) ->
  p_ip q' = p_ip (pc s p) -> p_watcher q' = p_watcher (pc s p) -> p_stun q' = p_stun (pc s p) ->
  (p_timer q' = p_timer (pc s p) \/ (p_timer q' = false /\ mclosed s = false)) ->
  Inv (set_pc s (upd (pc s) p q')).
Proof.
  intros s p q' I Hp Ec Eu Ef Ei Ew Es Et. destruct I.
  assert (CL : forall x, p_closed (upd (pc s) p q' x) = p_closed (pc s x)).
  { intros x; unfold upd; destruct (Nat.eqb x p) eqn:E; auto. apply Nat.eqb_eq in E; subst; auto. }
  constructor; unfold set_pc; simpl; auto.
  - intros x Hx. unfold upd. destruct (Nat.eqb x p) eqn:E; auto. apply Nat.eqb_eq in E; lia.
  - intros k. eapply conn_ok_ext; [|apply i_conn0]. auto.
  - intros x. rewrite CL. intros Hx. destruct (i_open0 x Hx) as (A & B & C).
    unfold upd. destruct (Nat.eqb x p) eqn:E; auto.
    apply Nat.eqb_eq in E; subst x. rewrite Ew, Eu, Ef, Ei. auto.
  - intros u f i x Hm. destruct (i_mp0 _ _ _ _ Hm) as (A & B & C & D).
    unfold upd. destruct (Nat.eqb x p) eqn:E; auto.
    apply Nat.eqb_eq in E; subst x. rewrite Eu, Ef, Ei. auto.
  - intros x. rewrite CL. unfold upd. destruct (Nat.eqb x p) eqn:E; auto.
    apply Nat.eqb_eq in E; subst x. intros Ht. rewrite Es.
    destruct Et as [Et|[Et _]]; [rewrite Et in Ht; auto | congruence].
  - intros Hc. destruct (i_ret0 Hc) as (A & B & C & D). repeat split; auto.
    intros x. unfold upd. destruct (Nat.eqb x p) eqn:E; auto.
    apply Nat.eqb_eq in E; subst x. rewrite Ew; auto.
  - intros Hc x. rewrite CL. intros Hx. unfold upd. destruct (Nat.eqb x p) eqn:E; auto.
    apply Nat.eqb_eq in E; subst x. destruct Et as [Et|[_ Et]]; [rewrite Et; auto | congruence].
  - intros u f i x Hm. rewrite CL. intros Hx. pose proof (i_cm0 _ _ _ _ Hm Hx) as W.
    unfold upd. destruct (Nat.eqb x p) eqn:E; auto.
    apply Nat.eqb_eq in E; subst x. rewrite Ew; auto.
Qed.

Lemma inv_watcher_off : forall s p,
  Inv s -> p_closed (pc s p) = true -> (forall u f i, mp s u f i <> Some p) ->
  Inv (set_pc s (upd (pc s) p (mkP (p_ufrag (pc s p)) (p_is6 (pc s p)) (p_ip (pc s p)) (p_closed (pc s p))
                                   (p_timer (pc s p)) false (p_refs (pc s p)) (p_stun (pc s p))))).
Proof.
  intros s p I Hc Hnm. destruct I.
  set (q' := mkP _ _ _ _ _ _ _ _).
  assert (CL : forall x, p_closed (upd (pc s) p q' x) = p_closed (pc s x)).
  { intros x; unfold upd; destruct (Nat.eqb x p) eqn:E; auto. apply Nat.eqb_eq in E; subst; auto. }
  constructor; unfold set_pc; simpl; auto.
  - intros x Hx. unfold upd. destruct (Nat.eqb x p) eqn:E; auto.
    apply Nat.eqb_eq in E; subst x. subst q'. rewrite (i_npc0 p Hx). reflexivity.
  - intros k. eapply conn_ok_ext; [|apply i_conn0]. auto.
  - intros x. rewrite CL. intros Hx. destruct (i_open0 x Hx) as (A & B & C).
    unfold upd. destruct (Nat.eqb x p) eqn:E; auto.
    apply Nat.eqb_eq in E; subst x. congruence.
  - intros u f i x Hm. destruct (i_mp0 _ _ _ _ Hm) as (A & B & C & D).
    unfold upd. destruct (Nat.eqb x p) eqn:E; auto.
    apply Nat.eqb_eq in E; subst x. subst q'; simpl. auto.
  - intros x. rewrite CL. unfold upd. destruct (Nat.eqb x p) eqn:E; auto.
    apply Nat.eqb_eq in E; subst x. simpl. auto.
  - intros Hr. destruct (i_ret0 Hr) as (A & B & C & D). repeat split; auto.
    intros x. unfold upd. destruct (Nat.eqb x p) eqn:E; auto.
  - intros Hm x. rewrite CL. intros Hx. unfold upd. destruct (Nat.eqb x p) eqn:E; auto.
    apply Nat.eqb_eq in E; subst x. congruence.
  - intros u f i x Hm. rewrite CL. intros Hx. pose proof (i_cm0 _ _ _ _ Hm Hx) as W.
    unfold upd. destruct (Nat.eqb x p) eqn:E; auto.
    apply Nat.eqb_eq in E; subst x. exfalso. eapply Hnm; eauto.
Qed.

Lemma key_eqb_true : forall u' f' i' u f i,
  (String.eqb u' u && Bool.eqb f' f && String.eqb i' i)%bool = true <-> (u' = u /\ f' = f /\ i' = i).
Proof.
  intros. rewrite !andb_true_iff, !String.eqb_eq, Bool.eqb_true_iff. tauto.
Qed.

Lemma inv_create_pc : forall s u is6 ip stun timer refs,
  Inv s -> (forall p, mp s u is6 ip = Some p -> p_closed (pc s p) = true) -> creturned s = false ->
  (mclosed s = true -> timer = cf_alive cf) -> (timer = true -> stun = true) ->
  Inv (create_pc s u is6 ip stun timer refs).
Proof.
  intros s u is6 ip stun timer refs I Hm Hr Ht Hs. destruct I.
  constructor; unfold create_pc; simpl; auto.
  - intros p Hp. unfold upd. destruct (Nat.eqb p (npc s)) eqn:E.
    + apply Nat.eqb_eq in E; lia.
    + apply i_npc0; lia.
  - intros k. apply conn_ok_grow; auto.
  - intros p. unfold upd at 1. destruct (Nat.eqb p (npc s)) eqn:E.
    + apply Nat.eqb_eq in E; subst p. intros _. unfold upd; rewrite Nat.eqb_refl; simpl.
      rewrite !String.eqb_refl, Bool.eqb_reflx; simpl. repeat split; auto.
    + intros Hp. destruct (i_open0 p Hp) as (A & B & C). unfold upd; rewrite E.
      repeat split; auto.
      destruct (String.eqb (p_ufrag (pc s p)) u && Bool.eqb (p_is6 (pc s p)) is6 && String.eqb (p_ip (pc s p)) ip)%bool eqn:K; auto.
      apply key_eqb_true in K. destruct K as (K1 & K2 & K3). rewrite K1, K2, K3 in C.
      apply Hm in C. congruence.
  - intros u' f' i' p.
    destruct (String.eqb u' u && Bool.eqb f' is6 && String.eqb i' ip)%bool eqn:K.
    + intros Hp; inversion Hp; subst p. apply key_eqb_true in K. destruct K as (K1 & K2 & K3); subst.
      unfold upd; rewrite Nat.eqb_refl; simpl. repeat split; auto.
    + intros Hp. destruct (i_mp0 _ _ _ _ Hp) as (A & B & C & D).
      unfold upd. destruct (Nat.eqb p (npc s)) eqn:E; [apply Nat.eqb_eq in E; lia|]. repeat split; auto.
  - intros p. unfold upd. destruct (Nat.eqb p (npc s)) eqn:E; simpl; auto.
  - congruence.
  - intros Hc p. unfold upd. destruct (Nat.eqb p (npc s)) eqn:E; simpl; auto.
  - intros h p b Hh. apply i_hnd0 in Hh. lia.
  - intros u' f' i' p.
    destruct (String.eqb u' u && Bool.eqb f' is6 && String.eqb i' ip)%bool eqn:K.
    + intros Hp; inversion Hp; subst p. unfold upd; rewrite Nat.eqb_refl; simpl. discriminate.
    + intros Hp. destruct (i_mp0 _ _ _ _ Hp) as (A & _).
      unfold upd. destruct (Nat.eqb p (npc s)) eqn:E; [apply Nat.eqb_eq in E; lia|]. eauto.
Qed.

(* ------------------------------------------------------------------------------------------ *)
(* one lemma per label *)

Ltac cok H :=
  let A := fresh "A" in let B := fresh "B" in let C := fresh "C" in let D := fresh "D" in
  let F := fresh "F" in let G := fresh "G" in let H1 := fresh "H" in let I := fresh "I" in
  let J := fresh "J" in let K := fresh "K" in let L := fresh "L" in let M := fresh "M" in
  destruct H as [A B C D F G H1 I J K L M]; constructor; simpl in *; intros; fwd; fin; try (repeat split; fin).

Lemma find_att_none : forall s p r, Inv s -> find_att s p r = None ->
  forall k', c_att (conn s k') = Some p -> c_raddr (conn s k') <> r.
Proof.
  intros s p r I Hf k' Ha Hr. unfold find_att in Hf.
  destruct (in_dec Nat.eq_dec k' (cids s)) as [Hin|Hn].
  - eapply find_none in Hf; eauto. simpl in Hf. rewrite Ha, Hr in Hf. simpl in Hf.
    rewrite Nat.eqb_refl, String.eqb_refl in Hf. discriminate.
  - rewrite (i_cid _ I _ Hn) in Ha. discriminate.
Qed.

Lemma find_att_some : forall s p r k, find_att s p r = Some k ->
  In k (cids s) /\ c_att (conn s k) = Some p /\ c_raddr (conn s k) = r.
Proof.
  intros s p r k Hf. unfold find_att in Hf. apply find_some in Hf. destruct Hf as [Hin Hb].
  apply andb_true_iff in Hb. destruct Hb as [H1 H2]. apply oeqb_true in H1. apply String.eqb_eq in H2. auto.
Qed.

Lemma reject_ok : forall n pcs c b,
  conn_ok n pcs c -> (b = true -> c_route c = None /\ c_got c = []) -> c_att c = None -> c_reader c = None ->
  conn_ok n pcs (reject c b).
Proof.
  intros n pcs c b H Hb Ha Hr. unfold reject.
  cok H.
Qed.

Lemma inv_ret_false : forall s k, Inv s -> c_phase (conn s k) <> PDone -> creturned s = false.
Proof.
  intros s k I Hp. destruct (creturned s) eqn:E; auto.
  destruct (i_ret _ I E) as (_ & _ & C & _). specialize (C k). congruence.
Qed.

Lemma inv_accept : forall s cid raddr is6 lip aok, Inv s -> Inv (next s (OAccept cid raddr is6 lip aok)).
Proof.
  intros s cid raddr is6 lip aok I. unfold next, step.
  destruct (lopen s && acc_alive s && negb (memb cid (cids s)))%bool eqn:E; simpl; auto.
  apply andb_true_iff in E. destruct E as [E E3]. apply andb_true_iff in E. destruct E as [E1 E2].
  apply negb_true_iff in E3.
  assert (Hn : ~ In cid (cids s)). { intro X. apply memb_In in X. congruence. }
  assert (Hr : creturned s = false).
  { destruct (creturned s) eqn:R; auto. destruct (i_ret _ I R) as (A & _).
    apply (i_closing _ I) in A. apply (i_closed _ I) in A. congruence. }
  pose proof (i_cid _ I _ Hn) as Hd.
  destruct I. constructor; simpl; auto.
  - intros k Hk. unfold upd. destruct (Nat.eqb k cid) eqn:K.
    + apply Nat.eqb_eq in K; subst. tauto.
    + apply i_cid0. tauto.
  - intros k. unfold upd. destruct (Nat.eqb k cid) eqn:K; auto.
    constructor; simpl; intros; fin.
    exists []; auto.
  - intros k k' p. unfold upd.
    destruct (Nat.eqb k cid) eqn:K1; destruct (Nat.eqb k' cid) eqn:K2; simpl; intros; fin; eauto.
  - congruence.
Qed.

Lemma inv_reject_pending : forall s cid,
  Inv s -> In cid (cids s) -> c_phase (conn s cid) = PPending ->
  Inv (set_one s cid (reject (conn s cid) true)).
Proof.
  intros s cid I Hin Hp.
  pose proof (i_conn _ I cid) as Hc. destruct (k_pend _ _ _ Hc Hp) as (P1 & P2 & P3 & P4 & P5 & P6 & _).
  apply inv_set_one; auto.
  - apply reject_ok; auto.
  - simpl; intros; discriminate.
Qed.

Lemma routed_ok : forall n pcs c p b,
  conn_ok n pcs c -> c_phase c = PPending -> p < n ->
  conn_ok n pcs (mkT (c_raddr c) (c_is6 c) (c_lip c) (c_addr_ok c) (PRouted p b) None None None (c_stream c)
                     (c_cli_closed c) false false (c_out c) [b] [] (Some p) false).
Proof.
  intros n pcs c p b H Hp Hlt.
  destruct (k_pend _ _ _ H Hp) as (P1 & P2 & P3 & P4 & P5 & P6 & P7 & P8 & P9 & P10).
  constructor; simpl; intros; fin.
  - inversion H0; subst. rewrite P9. repeat split; auto.
  - exists [b]; auto.
Qed.

Lemma inv_first : forall s cid m, Inv s -> Inv (next s (OFirst cid m)).
Proof.
  intros s cid m I. unfold next, step.
  destruct (negb (memb cid (cids s))) eqn:E; simpl; auto.
  apply negb_false_iff in E. apply memb_In in E.
  destruct (c_phase (conn s cid)) eqn:Hp; simpl; auto.
  pose proof (i_conn _ I cid) as Hc.
  destruct (classify m) eqn:Hm; simpl; try (apply inv_reject_pending; auto).
  destruct (negb (c_addr_ok (conn s cid))); simpl; [apply inv_reject_pending; auto|].
  assert (Hr : creturned s = false) by (apply (inv_ret_false s cid I); rewrite Hp; discriminate).
  destruct (lookup cf s ufrag (c_is6 (conn s cid)) (c_lip (conn s cid))) as [p|] eqn:El; simpl.
  - destruct (lookup_some _ _ _ _ _ El) as (Em & _).
    destruct (i_mp _ I _ _ _ _ Em) as (A & _).
    apply inv_set_one; auto.
    + apply routed_ok; auto.
    + simpl; intros; discriminate.
    + congruence.
  - destruct (cf_addr_ok cf); simpl; [|apply inv_reject_pending; auto].
    assert (I1 : Inv (create_pc s ufrag (c_is6 (conn s cid)) (c_lip (conn s cid)) true (cf_alive cf) 0)).
    { apply inv_create_pc; auto. intros p Hmp. apply (lookup_none _ _ _ _ El p Hmp). }
    apply (inv_set_one (create_pc s ufrag (c_is6 (conn s cid)) (c_lip (conn s cid)) true (cf_alive cf) 0)); auto.
    + simpl. apply routed_ok; auto. apply conn_ok_grow; auto.
    + simpl; intros; discriminate.
    + simpl. congruence.
Qed.

Lemma inv_attach : forall s cid, Inv s -> Inv (next s (OAttach cid)).
Proof.
  intros s cid I. unfold next, step.
  destruct (negb (memb cid (cids s))) eqn:E; simpl; auto.
  apply negb_false_iff in E. apply memb_In in E.
  destruct (c_phase (conn s cid)) as [|p b|] eqn:Hp; simpl; auto.
  pose proof (i_conn _ I cid) as Hc.
  destruct (k_routed _ _ _ Hc _ _ Hp) as (R1 & R2 & R3 & R4 & R5 & R6 & R7 & R8 & R9).
  assert (Rej : Inv (set_one s cid (reject (conn s cid) false))).
  { apply inv_set_one; auto.
    - apply reject_ok; auto. intros; discriminate.
    - simpl; intros; discriminate. }
  destruct (p_closed (pc s p)) eqn:Hcl; simpl; auto.
  destruct (find_att s p (c_raddr (conn s cid))) eqn:Hf; simpl; auto.
  apply inv_set_one; auto.
  - cok Hc.
    rewrite R8, R7. reflexivity.
  - simpl. intros p0 k' Hp0 Hne Ha. inversion Hp0; subst p0.
    intro Hr. simpl in Hr. apply (find_att_none s p _ I Hf k' Ha). auto.
Qed.

Lemma inv_deadline : forall s cid, Inv s -> Inv (next s (ODeadline cid)).
Proof.
  intros s cid I. unfold next, step.
  destruct (negb (memb cid (cids s))) eqn:E; simpl; auto.
  apply negb_false_iff in E. apply memb_In in E.
  destruct (c_phase (conn s cid)) eqn:Hp; simpl; auto.
  destruct (c_dl (conn s cid)); simpl; auto.
  apply inv_reject_pending; auto.
Qed.

Lemma inv_send : forall s cid b, Inv s -> Inv (next s (OSend cid b)).
Proof.
  intros s cid b I. unfold next, step.
  destruct (negb (memb cid (cids s))) eqn:E; simpl; auto.
  apply negb_false_iff in E. apply memb_In in E.
  pose proof (i_conn _ I cid) as Hc.
  destruct (c_phase (conn s cid)) as [|p b0|] eqn:Hp; simpl; auto;
    destruct (c_cli_closed (conn s cid)) eqn:Hcc; simpl; auto;
    destruct (c_srv_closed (conn s cid)) eqn:Hsc; simpl; auto.
  - apply inv_set_one; auto.
    + destruct (k_routed _ _ _ Hc _ _ Hp) as (R1 & R2 & R3 & R4 & R5 & R6 & R7 & R8 & R9).
      cok Hc.
      * rewrite R8; reflexivity.
      * destruct J as [rest J]. exists (rest ++ [b]). rewrite J, app_assoc; auto.
    + simpl. intros p0 k' Ha. destruct (k_routed _ _ _ Hc _ _ Hp) as (_ & _ & _ & R4 & _). congruence.
    + simpl. intros Hr. exfalso. assert (X := inv_ret_false s cid I). rewrite Hp in X. specialize (X ltac:(discriminate)). congruence.
  - apply inv_set_one; auto.
    + cok Hc.
      * destruct J as [rest J]. exists (rest ++ [b]). rewrite J, app_assoc; auto.
      * unfold held in *. destruct (c_hold (conn s cid)) as [[d|e]|]; auto;
          rewrite K; simpl; rewrite <- ?app_assoc; simpl; auto.
    + simpl. intros p0 k' Ha Hne Ha' Hr. apply Hne. symmetry. eapply (i_uniq _ I); eauto.
Qed.

(* a change of fields the invariant does not mention *)
Lemma inv_same_conn : forall s k c',
  Inv s -> In k (cids s) ->
  c_phase c' = c_phase (conn s k) -> c_att c' = c_att (conn s k) -> c_reader c' = c_reader (conn s k) ->
  c_hold c' = c_hold (conn s k) -> c_stream c' = c_stream (conn s k) -> c_srv_closed c' = c_srv_closed (conn s k) ->
  c_dl c' = c_dl (conn s k) -> c_msgs c' = c_msgs (conn s k) -> c_got c' = c_got (conn s k) ->
  c_route c' = c_route (conn s k) -> c_rejected c' = c_rejected (conn s k) -> c_raddr c' = c_raddr (conn s k) ->
  Inv (set_one s k c').
Proof.
  intros s k c' I Hin E1 E2 E3 E4 E5 E6 E7 E8 E9 E10 E11 E12.
  pose proof (i_conn _ I k) as Hc.
  apply inv_set_one; auto.
  - destruct Hc as [A B C D F G H J K L M N].
    constructor; unfold prefix_ok, held in *; rewrite ?E1, ?E2, ?E3, ?E4, ?E5, ?E6, ?E7, ?E8, ?E9, ?E10, ?E11; auto.
  - intros p k' Ha Hne Ha' Hr. rewrite E2 in Ha. rewrite E12 in Hr.
    apply Hne. symmetry. eapply (i_uniq _ I); eauto.
  - intros Hr. rewrite E1. destruct (i_ret _ I Hr) as (_ & _ & C & _). auto.
Qed.

Lemma inv_cclose : forall s cid, Inv s -> Inv (next s (OClientClose cid)).
Proof.
  intros s cid I. unfold next, step.
  destruct (negb (memb cid (cids s))) eqn:E; simpl; auto.
  apply negb_false_iff in E. apply memb_In in E.
  destruct (c_cli_closed (conn s cid)) eqn:Hcc; simpl; auto.
  pose proof (i_conn _ I cid) as Hc.
  destruct (c_phase (conn s cid)) as [|p b0|] eqn:Hp; simpl.
  - destruct (c_srv_closed (conn s cid)) eqn:Hsc; simpl; auto.
    destruct (k_pend _ _ _ Hc Hp) as (P1 & P2 & P3 & P4 & P5 & P6 & P7 & P8 & P9 & P10).
    apply inv_set_one; auto.
    + cok Hc.
    + simpl; intros; discriminate.
  - apply inv_same_conn; auto.
  - apply inv_same_conn; auto.
Qed.

Lemma inv_crecv : forall s cid, Inv s -> Inv (next s (OClientRecv cid)).
Proof.
  intros s cid I. unfold next, step.
  destruct (negb (memb cid (cids s))) eqn:E; simpl; auto.
  apply negb_false_iff in E. apply memb_In in E.
  destruct (c_cli_closed (conn s cid)); simpl; auto.
  destruct (c_out (conn s cid)); simpl; auto.
  apply inv_same_conn; auto.
Qed.

Lemma inv_write : forall s h r b, Inv s -> Inv (next s (OWrite h r b)).
Proof.
  intros s h r b I. unfold next, step.
  destruct (hnd s h) as [[p [|]]|]; simpl; auto.
  destruct (find_att s p r) as [k|] eqn:Hf; simpl; auto.
  destruct (find_att_some _ _ _ _ Hf) as (Hin & _).
  destruct (c_cli_closed (conn s k)); simpl; auto.
  destruct (cf_wbuf cf && cf_wdrop cf && (receiveMTU <? slen b + streamingPacketHeaderLen)%Z)%bool; simpl; auto.
  apply inv_same_conn; auto.
Qed.

Lemma inv_pull : forall s cid, Inv s -> Inv (next s (OPull cid)).
Proof.
  intros s cid I. unfold next, step.
  destruct (negb (memb cid (cids s))) eqn:E; simpl; auto.
  apply negb_false_iff in E. apply memb_In in E.
  pose proof (i_conn _ I cid) as Hc.
  destruct (c_reader (conn s cid)) as [p|] eqn:Hr; simpl; auto.
  destruct (c_hold (conn s cid)) eqn:Hh; simpl; auto.
  destruct (k_rd _ _ _ Hc _ Hr) as (B1 & B2 & B3 & B4).
  pose proof (k_exact _ _ _ Hc _ Hr) as Hx. rewrite Hh in Hx. unfold held in Hx. rewrite Hh in Hx. simpl in Hx.
  assert (Hret : creturned s = true -> PDone = PDone) by auto.
  assert (Uq : forall (p0 k' : nat), c_att (conn s cid) = Some p0 -> k' <> cid ->
               c_att (conn s k') = Some p0 -> c_raddr (conn s cid) <> c_raddr (conn s k')).
  { intros p0 k' Ha Hne Ha' Hr'. apply Hne. symmetry. eapply (i_uniq _ I); eauto. }
  destruct (c_stream (conn s cid)) as [|b rest] eqn:Hs; simpl.
  - destruct (c_cli_closed (conn s cid)); simpl; auto.
    destruct (Nat.eqb (count_att s p - (if oeqb (c_att (conn s cid)) p then 1 else 0)) 0); simpl;
      apply inv_set_one; auto; try (simpl; intros; discriminate); cok Hc.
  - destruct (Z.leb (slen b) receiveMTU); simpl;
      apply inv_set_one; auto; try (simpl; intros; discriminate); cok Hc.
Qed.

Lemma inv_read : forall s h cid, Inv s -> Inv (next s (ORead h cid)).
Proof.
  intros s h cid I. unfold next, step.
  destruct (hnd s h) as [[p [|]]|]; simpl; auto.
  destruct (p_closed (pc s p)) eqn:Hcl; simpl; auto.
  destruct (negb (memb cid (cids s))) eqn:E; simpl; auto.
  apply negb_false_iff in E. apply memb_In in E.
  destruct (negb (oeqb (c_reader (conn s cid)) p)) eqn:Er; simpl; auto.
  apply negb_false_iff in Er. apply oeqb_true in Er.
  pose proof (i_conn _ I cid) as Hc.
  destruct (k_rd _ _ _ Hc _ Er) as (B1 & B2 & B3 & B4).
  pose proof (k_exact _ _ _ Hc _ Er) as Hx.
  assert (Uq : forall (p0 k' : nat), c_att (conn s cid) = Some p0 -> k' <> cid ->
               c_att (conn s k') = Some p0 -> c_raddr (conn s cid) <> c_raddr (conn s k')).
  { intros p0 k' Ha Hne Ha' Hr'. apply Hne. symmetry. eapply (i_uniq _ I); eauto. }
  destruct (c_hold (conn s cid)) as [[b|e]|] eqn:Hh; simpl; auto.
  - unfold held in Hx; rewrite Hh in Hx; simpl in Hx.
    apply inv_set_one; auto; try (simpl; intros; discriminate); cok Hc.
    + unfold prefix_ok; simpl. exists (c_stream (conn s cid)). rewrite Hx, <- app_assoc. reflexivity.
    + unfold held; simpl. rewrite Hx. rewrite <- app_assoc. reflexivity.
  - destruct (k_err _ _ _ Hc _ Hh) as (E1 & E2).
    apply inv_set_one; auto; try (simpl; intros; congruence); cok Hc.
Qed.

Lemma inv_get : forall s h u is6 ip, Inv s -> Inv (next s (OGet h u is6 ip)).
Proof.
  intros s h u is6 ip I. unfold next, step.
  destruct (mclosed s) eqn:Hm; simpl; auto.
  destruct (lookup cf s u is6 ip) as [p|] eqn:El; simpl.
  - destruct (lookup_some _ _ _ _ _ El) as (Em & _).
    destruct (i_mp _ I _ _ _ _ Em) as (A & _).
    apply inv_set_hnd.
    + apply inv_set_pc; simpl; auto.
    + unfold set_pc; simpl. intros h0 p0 b0. unfold upd. destruct (Nat.eqb h0 h).
      * intros X; inversion X; subst; auto.
      * apply (i_hnd _ I).
  - destruct (cf_addr_ok cf); simpl; auto.
    assert (Hr : creturned s = false).
    { destruct (creturned s) eqn:R; auto. destruct (i_ret _ I R) as (X & _).
      apply (i_closing _ I) in X. congruence. }
    apply inv_set_hnd.
    + apply inv_create_pc; auto; try (intros; congruence).
      intros p Hp. apply (lookup_none _ _ _ _ El p Hp).
    + simpl. intros h0 p0 b0. unfold upd. destruct (Nat.eqb h0 h).
      * intros X; inversion X; subst; auto.
      * intros X. apply (i_hnd _ I) in X. lia.
Qed.

Lemma mapped_true : forall s q, mapped s q = true <->
  mp s (p_ufrag (pc s q)) (p_is6 (pc s q)) (p_ip (pc s q)) = Some q.
Proof. intros; unfold mapped; apply oeqb_true. Qed.

Lemma inv_remove : forall s u, Inv s -> Inv (next s (ORemove u)).
Proof.
  intros s u I. unfold next, step. simpl.
  apply (inv_close_pcs s _ (fun u' f i => if String.eqb u' u then None else mp s u' f i)); auto.
  - intros u' f i p. destruct (String.eqb u' u); intros; auto; discriminate.
  - intros q Ho Hs. destruct (i_open _ I q Ho) as (A & B & C).
    destruct (String.eqb (p_ufrag (pc s q)) u) eqn:Eu; auto.
    exfalso. apply mapped_true in C. rewrite C in Hs. simpl in Hs.
    apply Nat.ltb_lt in A. rewrite A in Hs. discriminate.
Qed.

Lemma inv_expire : forall s u is6 ip, Inv s -> Inv (next s (OExpire u is6 ip)).
Proof.
  intros s u is6 ip I. unfold next, step.
  destruct (mp s u is6 ip) as [p|] eqn:Em; simpl; auto.
  destruct (p_timer (pc s p)); simpl; auto.
  apply (inv_close_pcs s (Nat.eqb p) (mp s)); auto.
  intros q Ho _. apply (i_open _ I q Ho).
Qed.

Lemma inv_hclose : forall s h, Inv s -> Inv (next s (OHClose h)).
Proof.
  intros s h I. unfold next, step.
  destruct (hnd s h) as [[p [|]]|] eqn:Eh; simpl; auto.
  pose proof (i_hnd _ I _ _ _ Eh) as Hlt.
  set (s1 := set_hnd (set_pc s (upd (pc s) p _)) _).
  assert (I1 : Inv s1).
  { apply inv_set_hnd.
    - apply inv_set_pc; simpl; auto.
    - unfold set_pc; simpl. intros h0 p0 b0. unfold upd. destruct (Nat.eqb h0 h).
      + intros X; inversion X; subst; auto.
      + apply (i_hnd _ I). }
  destruct (Z.leb (p_refs (pc s p) - 1) 0); simpl; auto.
  apply (inv_close_pcs s1 (Nat.eqb p) (mp s1)); auto.
  intros q Ho _. apply (i_open _ I1 q Ho).
Qed.

Lemma inv_accept_exit : forall s, Inv s -> Inv (next s OAcceptExit).
Proof.
  intros s I. unfold next, step.
  destruct (acc_alive s && negb (lopen s))%bool; simpl; auto.
  destruct I; constructor; simpl; auto.
  intros Hr. destruct (i_ret0 Hr) as (A & B & C & D). auto.
Qed.

Lemma inv_watcher : forall s p, Inv s -> Inv (next s (OWatcher p)).
Proof.
  intros s p I. unfold next, step.
  destruct (Nat.ltb p (npc s) && p_watcher (pc s p) && p_closed (pc s p))%bool eqn:E; simpl; auto.
  apply andb_true_iff in E. destruct E as [E E3]. apply andb_true_iff in E. destruct E as [E1 E2].
  set (u := p_ufrag (pc s p)). set (ip := p_ip (pc s p)).
  destruct (cf_byid cf) eqn:Hb.
  - (* the repair: nothing but the closed conn itself is unregistered *)
    set (m' := fun u' (f : bool) i => if oeqb (mp s u' f i) p then None else mp s u' f i).
    assert (I1 : Inv (set_mp (close_pcs s (fun _ => false)) m')).
    { apply inv_close_pcs; auto.
      - intros u' f i q. unfold m'. destruct (oeqb (mp s u' f i) p); intros; auto; discriminate.
      - intros q Ho _. destruct (i_open _ I q Ho) as (A & B & C). unfold m'. rewrite C.
        simpl. destruct (Nat.eqb q p) eqn:K; auto. apply Nat.eqb_eq in K; subst q. congruence. }
    assert (Hc : p_closed (pc (set_mp (close_pcs s (fun _ => false)) m') p) = true).
    { simpl. unfold close_pc_of. auto. }
    apply (inv_watcher_off _ p) in I1; auto.
    simpl. intros u' f i Hx. unfold m' in Hx.
    destruct (oeqb (mp s u' f i) p) eqn:K; [discriminate|]. rewrite Hx in K. simpl in K.
    rewrite Nat.eqb_refl in K. discriminate.
  - set (sel := fun r => (oeqb (mp s u false ip) r || oeqb (mp s u true ip) r)%bool).
    set (m' := fun u' (f : bool) i => if (String.eqb u' u && String.eqb i ip)%bool then None else mp s u' f i).
    assert (I1 : Inv (set_mp (close_pcs s sel) m')).
    { apply inv_close_pcs; auto.
      - intros u' f i q. unfold m'. destruct (String.eqb u' u && String.eqb i ip)%bool; intros; auto; discriminate.
      - intros q Ho Hs. destruct (i_open _ I q Ho) as (A & B & C). unfold m'.
        destruct (String.eqb (p_ufrag (pc s q)) u && String.eqb (p_ip (pc s q)) ip)%bool eqn:K; auto.
        exfalso. apply andb_true_iff in K. destruct K as [K1 K2].
        apply String.eqb_eq in K1. apply String.eqb_eq in K2. rewrite K1, K2 in C.
        unfold sel in Hs. apply orb_false_iff in Hs. destruct Hs as [S1 S2].
        destruct (p_is6 (pc s q)); rewrite C in *; simpl in *; rewrite Nat.eqb_refl in *; discriminate. }
    assert (Hc : p_closed (pc (set_mp (close_pcs s sel) m') p) = true).
    { simpl. unfold close_pc_of. destruct (sel p); simpl; auto. }
    apply (inv_watcher_off _ p) in I1; auto.
    simpl. intros u' f i Hx. unfold m' in Hx.
    destruct (String.eqb u' u && String.eqb i ip)%bool eqn:K; [discriminate|].
    destruct (i_mp _ I _ _ _ _ Hx) as (_ & X & _ & Y). unfold u, ip in K.
    rewrite <- X, <- Y in K. rewrite !String.eqb_refl in K. discriminate.
Qed.

Lemma filter_len0 : forall {A} (f : A -> bool) l, length (filter f l) = 0 -> forall x, In x l -> f x = false.
Proof.
  induction l; simpl; intros H x Hin; [tauto|].
  destruct (f a) eqn:E; simpl in H; [discriminate|].
  destruct Hin; subst; auto.
Qed.

Lemma inv_muxclose : forall s, Inv s -> Inv (next s OMuxClose).
Proof.
  intros s I. unfold next, step.
  destruct (mclosed s) eqn:Hm; simpl; auto.
  set (sel := fun q => (mapped s q && Nat.ltb q (npc s))%bool).
  assert (I1 : Inv (set_mp (close_pcs s sel) (fun _ _ _ => None))).
  { apply inv_close_pcs; auto.
    - intros; discriminate.
    - intros q Ho Hs. exfalso. destruct (i_open _ I q Ho) as (A & B & C).
      unfold sel in Hs. apply mapped_true in C. apply Nat.ltb_lt in A. rewrite C, A in Hs. discriminate. }
  assert (Hall : forall q, p_closed (pc (close_pcs s sel) q) = true).
  { intros q. simpl. unfold close_pc_of. destruct (sel q) eqn:Es; simpl; auto.
    destruct (p_closed (pc s q)) eqn:Ho; auto. exfalso.
    destruct (i_open _ I q Ho) as (A & B & C).
    unfold sel in Es. apply mapped_true in C. apply Nat.ltb_lt in A. rewrite C, A in Es. discriminate. }
  destruct I1. constructor; simpl in *; auto; try discriminate.
  intros _ p Hp. specialize (Hall p). congruence.
Qed.

Lemma inv_muxclose_return : forall s, Inv s -> Inv (next s OMuxCloseReturn).
Proof.
  intros s I. unfold next, step.
  destruct (closing s && negb (creturned s) && wg_zero s)%bool eqn:E; simpl; auto.
  apply andb_true_iff in E. destruct E as [E E3]. apply andb_true_iff in E. destruct E as [E1 E2].
  unfold wg_zero in E3. apply andb_true_iff in E3. destruct E3 as [E3 W]. apply andb_true_iff in E3. destruct E3 as [A H].
  apply negb_true_iff in A. apply Nat.eqb_eq in H. apply Nat.eqb_eq in W.
  pose proof I as I'. destruct I. constructor; simpl; auto.
  intros _. repeat split; auto.
  - intros k. destruct (in_dec Nat.eq_dec k (cids s)) as [Hin|Hn].
    + unfold n_handlers in H. eapply filter_len0 in H; eauto. unfold handler_alive in H.
      destruct (c_phase (conn s k)); auto; discriminate.
    + rewrite i_cid0; auto.
  - intros p. destruct (Nat.lt_ge_cases p (npc s)) as [Hlt|Hge].
    + unfold n_watchers in W. eapply filter_len0 in W; eauto. apply in_seq. lia.
    + rewrite i_npc0; auto.
Qed.

Theorem inv_step : forall s o, Inv s -> Inv (next s o).
Proof.
  intros s o I. destruct o.
  - apply inv_accept; auto.
  - apply inv_first; auto.
  - apply inv_attach; auto.
  - apply inv_deadline; auto.
  - apply inv_send; auto.
  - apply inv_cclose; auto.
  - apply inv_crecv; auto.
  - apply inv_pull; auto.
  - apply inv_get; auto.
  - apply inv_remove; auto.
  - apply inv_write; auto.
  - apply inv_read; auto.
  - apply inv_hclose; auto.
  - apply inv_expire; auto.
  - apply inv_watcher; auto.
  - apply inv_accept_exit; auto.
  - apply inv_muxclose; auto.
  - apply inv_muxclose_return; auto.
  - unfold next, step. destruct (negb (memb cid (cids s))); auto.
  - auto.
Qed.

Theorem inv_run : forall ops s, Inv s -> Inv (run cf s ops).
Proof.
  induction ops; simpl; intros; auto.
  apply IHops. apply inv_step; auto.
Qed.

Corollary inv_reach : forall ops, Inv (run cf init ops).
Proof. intros; apply inv_run, inv_init. Qed.

(* ------------------------------------------------------------------------------------------ *)
(* stability facts, by case analysis on the label *)

Ltac case_step :=
  unfold next, step;
  repeat match goal with
  | |- context [match ?x with _ => _ end] =>
    match x with
    | context [Nat.eqb] => fail 1
    | _ => destruct x eqn:?; simpl
    end
  end; simpl;
  unfold set_one, set_hnd, set_mp, close_pcs, create_pc, set_pc, set_conn; simpl.

Ltac case_upd :=
  unfold upd;
  repeat match goal with
  | |- context [Nat.eqb ?a ?b] => destruct (Nat.eqb a b) eqn:?; simpl
  end.

(* a rejected connection stays rejected *)
Lemma rejected_stable : forall s o k, Inv s ->
  c_rejected (conn s k) = true -> c_rejected (conn (next s o) k) = true.
Proof.
  intros s o k I Hr.
  destruct (k_rej _ _ _ (i_conn _ I k) Hr) as (R1 & R2 & R3 & R4 & R5 & R6).
  assert (Hin : In k (cids s)).
  { destruct (in_dec Nat.eq_dec k (cids s)); auto. rewrite (i_cid _ I k n) in Hr. discriminate. }
  apply memb_In in Hin.
  destruct o; case_step; auto; case_upd; auto;
    repeat match goal with H : Nat.eqb _ _ = true |- _ => apply Nat.eqb_eq in H; subst end;
    try congruence;
    try (unfold close_conn_of; simpl; auto).
  rewrite Hin in Heqb. rewrite !andb_false_r in Heqb. discriminate.
Qed.

(* ------------------------------------------------------------------------------------------ *)
(* C15_rejects *)

Definition bad_class (m : first_msg) : Prop :=
  match classify m with FOk _ _ => False | _ => True end.

Lemma first_bad_rejects : forall s cid m,
  In cid (cids s) -> c_phase (conn s cid) = PPending -> bad_class m ->
  c_rejected (conn (next s (OFirst cid m)) cid) = true.
Proof.
  intros s cid m Hin Hp Hb. apply memb_In in Hin. unfold bad_class in Hb.
  unfold next, step. rewrite Hin, Hp; simpl.
  destruct (classify m); try tauto; simpl; unfold upd; rewrite Nat.eqb_refl; reflexivity.
Qed.

Lemma late_rejects : forall s cid, Inv s ->
  In cid (cids s) -> c_phase (conn s cid) = PPending -> cf_first_timeout cf = true ->
  c_rejected (conn (next s (ODeadline cid)) cid) = true.
Proof.
  intros s cid I Hin Hp Hft.
  destruct (k_pend _ _ _ (i_conn _ I cid) Hp) as (_ & _ & _ & _ & _ & _ & Hdl & _).
  apply memb_In in Hin. unfold next, step. rewrite Hin, Hp, Hdl, Hft; simpl.
  unfold upd; rewrite Nat.eqb_refl; reflexivity.
Qed.

Lemma early_close_rejects : forall s cid, Inv s ->
  In cid (cids s) -> c_phase (conn s cid) = PPending -> c_cli_closed (conn s cid) = false ->
  c_rejected (conn (next s (OClientClose cid)) cid) = true.
Proof.
  intros s cid I Hin Hp Hcc.
  destruct (k_pend _ _ _ (i_conn _ I cid) Hp) as (Hsc & _).
  apply memb_In in Hin. unfold next, step. rewrite Hin, Hp, Hcc, Hsc; simpl.
  unfold upd; rewrite Nat.eqb_refl; reflexivity.
Qed.

Lemma rejected_forever : forall ops s k, Inv s -> c_rejected (conn s k) = true ->
  let s' := run cf s ops in
  c_rejected (conn s' k) = true /\ c_srv_closed (conn s' k) = true /\ c_att (conn s' k) = None /\
  c_reader (conn s' k) = None /\ c_got (conn s' k) = [] /\ c_route (conn s' k) = None /\
  c_phase (conn s' k) = PDone.
Proof.
  induction ops; simpl; intros s k I Hr.
  - destruct (k_rej _ _ _ (i_conn _ I k) Hr) as (R1 & R2 & R3 & R4 & R5 & R6). repeat split; auto.
  - apply IHops.
    + apply inv_step; auto.
    + apply rejected_stable; auto.
Qed.

(* a connection that is never routed never delivers anything, whoever reads *)
Lemma read_needs_reader : forall s h cid a b s',
  step cf s (ORead h cid) = (s', XPkt a b) ->
  exists p, hnd s h = Some (p, false) /\ c_reader (conn s cid) = Some p /\ c_hold (conn s cid) = Some (IData b) /\
            a = c_raddr (conn s cid) /\ p_closed (pc s p) = false /\
            c_got (conn s' cid) = c_got (conn s cid) ++ [b] /\ c_msgs (conn s' cid) = c_msgs (conn s cid) /\
            (forall k, k <> cid -> conn s' k = conn s k).
Proof.
  intros s h cid a b s'. unfold step.
  destruct (hnd s h) as [[p [|]]|]; try (intros X; inversion X; fail).
  destruct (p_closed (pc s p)) eqn:Hc; try (intros X; inversion X; fail).
  destruct (negb (memb cid (cids s))); try (intros X; inversion X; fail).
  destruct (negb (oeqb (c_reader (conn s cid)) p)) eqn:Er; try (intros X; inversion X; fail).
  apply negb_false_iff in Er. apply oeqb_true in Er.
  destruct (c_hold (conn s cid)) as [[d|e]|] eqn:Hh; intros X; inversion X; subst.
  exists p. simpl. unfold upd. rewrite Nat.eqb_refl. simpl. repeat split; auto.
  intros k Hk. apply Nat.eqb_neq in Hk. rewrite Hk. reflexivity.
Qed.

(* ------------------------------------------------------------------------------------------ *)
(* C15_routing *)

Lemma first_ok_routes : forall s cid m u b,
  In cid (cids s) -> c_phase (conn s cid) = PPending -> classify m = FOk u b -> c_addr_ok (conn s cid) = true ->
  let c := conn s cid in
  let s' := next s (OFirst cid m) in
  match lookup cf s u (c_is6 c) (c_lip c) with
  | Some p => c_phase (conn s' cid) = PRouted p b /\ c_route (conn s' cid) = Some p /\
              c_msgs (conn s' cid) = [b] /\ c_got (conn s' cid) = [] /\ npc s' = npc s /\ pc s' = pc s /\ mp s' = mp s
  | None => cf_addr_ok cf = true ->
      c_phase (conn s' cid) = PRouted (npc s) b /\ c_route (conn s' cid) = Some (npc s) /\
      c_msgs (conn s' cid) = [b] /\ c_got (conn s' cid) = [] /\ npc s' = S (npc s) /\
      pc s' (npc s) = mkP u (c_is6 c) (c_lip c) false (cf_alive cf) true 0 true /\
      mp s' u (c_is6 c) (c_lip c) = Some (npc s)
  end.
Proof.
  intros s cid m u b Hin Hp Hm Ha. apply memb_In in Hin. simpl.
  unfold next, step. rewrite Hin, Hp, Hm, Ha; simpl.
  destruct (lookup cf s u (c_is6 (conn s cid)) (c_lip (conn s cid))) eqn:Em; simpl.
  - unfold upd; rewrite Nat.eqb_refl; simpl. repeat split; auto.
  - intros Hl; rewrite Hl; simpl. unfold upd; rewrite !Nat.eqb_refl; simpl.
    rewrite !String.eqb_refl, Bool.eqb_reflx; simpl. repeat split; auto.
Qed.

Lemma attach_effect : forall s cid p b,
  In cid (cids s) -> c_phase (conn s cid) = PRouted p b ->
  p_closed (pc s p) = false -> find_att s p (c_raddr (conn s cid)) = None ->
  let s' := next s (OAttach cid) in
  c_att (conn s' cid) = Some p /\ c_reader (conn s' cid) = Some p /\ c_hold (conn s' cid) = Some (IData b) /\
  c_srv_closed (conn s' cid) = false /\ c_msgs (conn s' cid) = c_msgs (conn s cid) /\ c_route (conn s' cid) = c_route (conn s cid).
Proof.
  intros s cid p b Hin Hp Hc Hf. apply memb_In in Hin. simpl.
  unfold next, step. rewrite Hin, Hp, Hc, Hf; simpl.
  unfold upd; rewrite Nat.eqb_refl; simpl. repeat split; auto.
Qed.

(* a failed attach closes the connection: its packet conn was closed in the meantime, or the remote
   address is already in that packet conn's table *)
Lemma attach_failure_closes : forall s cid p b,
  In cid (cids s) -> c_phase (conn s cid) = PRouted p b ->
  (p_closed (pc s p) = true \/ find_att s p (c_raddr (conn s cid)) <> None) ->
  let s' := next s (OAttach cid) in
  c_srv_closed (conn s' cid) = true /\ c_att (conn s' cid) = None /\ c_reader (conn s' cid) = None.
Proof.
  intros s cid p b Hin Hp Hc. apply memb_In in Hin. simpl.
  unfold next, step. rewrite Hin, Hp; simpl.
  destruct (p_closed (pc s p)) eqn:E; simpl.
  - unfold upd; rewrite Nat.eqb_refl; simpl; auto.
  - destruct Hc as [Hc|Hc]; [discriminate|].
    destruct (find_att s p (c_raddr (conn s cid))); [|congruence]. simpl.
    unfold upd; rewrite Nat.eqb_refl; simpl; auto.
Qed.

Lemma route_stable : forall s o k p, Inv s ->
  c_route (conn s k) = Some p -> c_route (conn (next s o) k) = Some p.
Proof.
  intros s o k p I Hr.
  assert (Hin : In k (cids s)).
  { destruct (in_dec Nat.eq_dec k (cids s)); auto. rewrite (i_cid _ I k n) in Hr. discriminate. }
  apply memb_In in Hin.
  assert (Hnp : c_phase (conn s k) <> PPending).
  { intro X. destruct (k_pend _ _ _ (i_conn _ I k) X) as (_ & _ & _ & _ & Y & _). congruence. }
  destruct o; case_step; auto; case_upd; auto;
    repeat match goal with H : Nat.eqb _ _ = true |- _ => apply Nat.eqb_eq in H; subst end;
    try congruence;
    try (unfold close_conn_of; simpl; auto).
  rewrite Hin in Heqb. rewrite !andb_false_r in Heqb. discriminate.
Qed.

Lemma key_stable : forall s o p, p < npc s ->
  p_ufrag (pc (next s o) p) = p_ufrag (pc s p) /\ p_is6 (pc (next s o) p) = p_is6 (pc s p) /\
  p_ip (pc (next s o) p) = p_ip (pc s p).
Proof.
  intros s o p Hlt.
  destruct o; case_step; auto; case_upd; auto;
    repeat match goal with H : Nat.eqb _ _ = true |- _ => apply Nat.eqb_eq in H; subst end;
    try lia; auto;
    try (unfold close_pc_of; repeat match goal with |- context [if ?x then _ else _] => destruct x end; simpl; auto).
Qed.

Lemma npc_mono : forall s o, npc s <= npc (next s o).
Proof.
  intros s o. destruct o; case_step; auto.
Qed.

Theorem delivered_prefix : forall ops k,
  let s := run cf init ops in exists rest, c_msgs (conn s k) = c_got (conn s k) ++ rest.
Proof. intros ops k. apply (k_prefix _ _ _ (i_conn _ (inv_reach ops) k)). Qed.

Theorem next_delivery_exact : forall ops k p,
  let s := run cf init ops in
  c_reader (conn s k) = Some p ->
  (forall e, c_hold (conn s k) <> Some (IErr e)) ->
  c_route (conn s k) = Some p /\ p_closed (pc s p) = false /\
  c_msgs (conn s k) = c_got (conn s k) ++ held (conn s k) ++ c_stream (conn s k).
Proof.
  intros ops k p s Hr He.
  pose proof (i_conn _ (inv_reach ops) k) as Hc. fold s in Hc.
  destruct (k_rd _ _ _ Hc _ Hr) as (A & B & C & D). repeat split; auto.
  pose proof (k_exact _ _ _ Hc _ Hr) as X.
  destruct (c_hold (conn s k)) as [[d|e]|] eqn:E; auto. exfalso; eapply He; eauto.
Qed.

Lemma read_delivers : forall s h p cid b,
  hnd s h = Some (p, false) -> p_closed (pc s p) = false -> In cid (cids s) ->
  c_reader (conn s cid) = Some p -> c_hold (conn s cid) = Some (IData b) ->
  snd (step cf s (ORead h cid)) = XPkt (c_raddr (conn s cid)) b.
Proof.
  intros s h p cid b Hh Hc Hin Hr Hd. apply memb_In in Hin.
  unfold step. rewrite Hh, Hc, Hin, Hr, Hd; simpl. rewrite Nat.eqb_refl; simpl. reflexivity.
Qed.

Lemma pull_progress : forall s cid p b rest,
  In cid (cids s) -> c_reader (conn s cid) = Some p -> c_hold (conn s cid) = None ->
  c_stream (conn s cid) = b :: rest -> (slen b <= receiveMTU)%Z ->
  let s' := next s (OPull cid) in
  c_hold (conn s' cid) = Some (IData b) /\ c_stream (conn s' cid) = rest /\ c_reader (conn s' cid) = Some p.
Proof.
  intros s cid p b rest Hin Hr Hh Hs Hl. apply memb_In in Hin. apply Z.leb_le in Hl. simpl.
  unfold next, step. rewrite Hin, Hr, Hh, Hs, Hl; simpl. unfold upd; rewrite Nat.eqb_refl; simpl. auto.
Qed.

Lemma write_same_conn : forall s h p r b k, Inv s ->
  hnd s h = Some (p, false) -> find_att s p r = Some k -> c_cli_closed (conn s k) = false ->
  (cf_wbuf cf = false \/ cf_wdrop cf = false \/ (slen b + streamingPacketHeaderLen <= receiveMTU)%Z) ->
  let s' := next s (OWrite h r b) in
  snd (step cf s (OWrite h r b)) = XN (slen b) /\
  c_out (conn s' k) = c_out (conn s k) ++ [b] /\
  (forall k', k' <> k -> conn s' k' = conn s k') /\
  c_route (conn s k) = Some p /\ c_raddr (conn s k) = r /\
  (forall k', c_att (conn s k') = Some p -> c_raddr (conn s k') = r -> k' = k).
Proof.
  intros s h p r b k I Hh Hf Hc Hw. simpl.
  destruct (find_att_some _ _ _ _ Hf) as (Hin & Ha & Hr).
  assert (W : (cf_wbuf cf && cf_wdrop cf && (receiveMTU <? slen b + streamingPacketHeaderLen)%Z)%bool = false).
  { destruct Hw as [Hw|[Hw|Hw]]; [rewrite Hw; auto| rewrite Hw, andb_false_r; auto |].
    apply andb_false_iff; right. apply Z.ltb_ge; auto. }
  unfold next, step. rewrite Hh, Hf, Hc, W; simpl. unfold upd; rewrite Nat.eqb_refl; simpl.
  repeat split; auto.
  - intros k' Hk. apply Nat.eqb_neq in Hk. rewrite Hk; auto.
  - destruct (k_att _ _ _ (i_conn _ I k) _ Ha) as (_ & _ & _ & X).
    destruct (k_rd _ _ _ (i_conn _ I k) _ X) as (_ & _ & Y & _). auto.
  - intros k' Ha' Hr'. eapply (i_uniq _ I); eauto. congruence.
Qed.

(* while a packet conn is open it is the one registered under its key: a client naming its ufrag
   (same family, same local IP) is routed to it *)
Lemma open_pc_registered : forall s p, Inv s -> p_closed (pc s p) = false ->
  mp s (p_ufrag (pc s p)) (p_is6 (pc s p)) (p_ip (pc s p)) = Some p.
Proof. intros s p I Ho. apply (i_open _ I p Ho). Qed.

Lemma closed_only_by : forall s o p, Inv s ->
  p_closed (pc s p) = false -> p_closed (pc (next s o) p) = true ->
  match o with
  | ORemove u => u = p_ufrag (pc s p)
  | OHClose h => hnd s h = Some (p, false) /\ (p_refs (pc s p) - 1 <= 0)%Z
  | OExpire u f i => mp s u f i = Some p /\ p_timer (pc s p) = true
  | OMuxClose => mclosed s = false
  | OWatcher q => cf_byid cf = false /\ q <> p /\ p_closed (pc s q) = true /\ p_watcher (pc s q) = true /\
                  p_ufrag (pc s q) = p_ufrag (pc s p) /\ p_ip (pc s q) = p_ip (pc s p)
  | _ => False
  end.
Proof.
  intros s o p I Ho Hc.
  destruct (i_open _ I p Ho) as (Hlt & Hw & Hm).
  destruct o; try (revert Hc; case_step; case_upd;
    repeat match goal with H : Nat.eqb _ _ = true |- _ => apply Nat.eqb_eq in H; subst end;
    try lia; congruence).
  - (* ORemove *) revert Hc. unfold next, step; simpl. unfold close_pc_of.
    destruct (mapped s p && String.eqb (p_ufrag (pc s p)) u && Nat.ltb p (npc s))%bool eqn:E; [|congruence].
    intros _. apply andb_true_iff in E. destruct E as [E _]. apply andb_true_iff in E. destruct E as [_ E].
    apply String.eqb_eq in E. auto.
  - (* OHClose *) revert Hc. unfold next, step.
    destruct (hnd s h) as [[q [|]]|] eqn:Eh; simpl; try congruence.
    destruct (Z.leb (p_refs (pc s q) - 1) 0) eqn:Ez; simpl.
    + unfold close_pc_of, upd. destruct (Nat.eqb p q) eqn:Ep; simpl.
      * apply Nat.eqb_eq in Ep; subst q. intros _. split; auto. apply Z.leb_le; auto.
      * rewrite Nat.eqb_sym in Ep. rewrite Ep. congruence.
    + unfold upd. destruct (Nat.eqb p q) eqn:Ep; simpl; try congruence.
      apply Nat.eqb_eq in Ep; subst q. congruence.
  - (* OExpire *) revert Hc. unfold next, step.
    destruct (mp s u is6 ip) as [q|] eqn:Em; simpl; try congruence.
    destruct (p_timer (pc s q)) eqn:Et; simpl; try congruence.
    unfold close_pc_of. destruct (Nat.eqb q p) eqn:Ep; try congruence.
    apply Nat.eqb_eq in Ep; subst q. auto.
  - (* OWatcher *) revert Hc. unfold next, step.
    destruct (Nat.ltb p0 (npc s) && p_watcher (pc s p0) && p_closed (pc s p0))%bool eqn:E; simpl; try congruence.
    apply andb_true_iff in E. destruct E as [E E3]. apply andb_true_iff in E. destruct E as [E1 E2].
    unfold upd. destruct (Nat.eqb p p0) eqn:Ep; simpl.
    + apply Nat.eqb_eq in Ep; subst p0. congruence.
    + unfold close_pc_of. destruct (cf_byid cf) eqn:Hb; [congruence|].
      destruct (oeqb (mp s (p_ufrag (pc s p0)) false (p_ip (pc s p0))) p || oeqb (mp s (p_ufrag (pc s p0)) true (p_ip (pc s p0))) p)%bool eqn:Es;
        [|congruence].
      intros _. apply Nat.eqb_neq in Ep. repeat split; auto.
      * apply orb_true_iff in Es. destruct Es as [Es|Es]; apply oeqb_true in Es;
          destruct (i_mp _ I _ _ _ _ Es) as (_ & X & _); auto.
      * apply orb_true_iff in Es. destruct Es as [Es|Es]; apply oeqb_true in Es;
          destruct (i_mp _ I _ _ _ _ Es) as (_ & _ & _ & X); auto.
Qed.

(* ------------------------------------------------------------------------------------------ *)
(* C15_provisional_expiry *)

Lemma expire_closes : forall s u is6 ip p, Inv s ->
  mp s u is6 ip = Some p -> p_timer (pc s p) = true ->
  let s' := next s (OExpire u is6 ip) in
  p_closed (pc s' p) = true /\ p_timer (pc s' p) = false /\
  (forall k, c_att (conn s k) = Some p ->
             c_srv_closed (conn s' k) = true /\ c_att (conn s' k) = None /\ c_reader (conn s' k) = None) /\
  (forall k, c_reader (conn s k) = Some p -> c_reader (conn s' k) = None).
Proof.
  intros s u is6 ip p I Hm Ht. simpl. unfold next, step. rewrite Hm, Ht; simpl.
  unfold close_pc_of, close_conn_of. rewrite Nat.eqb_refl; simpl.
  split; [auto|]. split; [auto|]. split.
  - intros k Ha. destruct (k_att _ _ _ (i_conn _ I k) _ Ha) as (_ & _ & _ & Hr).
    rewrite Ha, Hr, Nat.eqb_refl. auto.
  - intros k Hr. rewrite Hr, Nat.eqb_refl; auto.
Qed.

Lemma claim_disarms : forall s h u is6 ip p,
  mclosed s = false -> lookup cf s u is6 ip = Some p ->
  let s' := next s (OGet h u is6 ip) in
  snd (step cf s (OGet h u is6 ip)) = XOk /\ hnd s' h = Some (p, false) /\ p_timer (pc s' p) = false /\
  p_closed (pc s' p) = p_closed (pc s p) /\ p_refs (pc s' p) = (p_refs (pc s p) + 1)%Z.
Proof.
  intros s h u is6 ip p Hc Hm. simpl. unfold next, step. rewrite Hc, Hm; simpl.
  unfold upd; rewrite !Nat.eqb_refl; simpl. auto.
Qed.

Lemma unarmed_expire_noop : forall s u is6 ip p,
  mp s u is6 ip = Some p -> p_timer (pc s p) = false -> next s (OExpire u is6 ip) = s.
Proof. intros s u is6 ip p Hm Ht. unfold next, step. rewrite Hm, Ht; reflexivity. Qed.

Lemma timer_stays_off : forall s o p, p < npc s ->
  p_timer (pc s p) = false -> p_timer (pc (next s o) p) = false.
Proof.
  intros s o p Hlt Ht.
  destruct o; case_step; auto; case_upd; auto;
    repeat match goal with H : Nat.eqb _ _ = true |- _ => apply Nat.eqb_eq in H; subst end;
    try lia; auto;
    try (unfold close_pc_of; repeat match goal with |- context [if ?x then _ else _] => destruct x end; simpl; auto).
Qed.

Lemma timer_off_forever : forall ops s p, p < npc s -> p_timer (pc s p) = false ->
  p_timer (pc (run cf s ops) p) = false.
Proof.
  induction ops; simpl; intros; auto.
  apply IHops.
  - pose proof (npc_mono s a). unfold next in *. lia.
  - apply timer_stays_off; auto.
Qed.

(* ------------------------------------------------------------------------------------------ *)
(* C15_close_complete: safety *)

Theorem close_complete_safety : forall s, Inv s -> creturned s = true ->
  lopen s = false /\ mclosed s = true /\ acc_alive s = false /\
  (forall k, c_srv_closed (conn s k) = true /\ c_phase (conn s k) = PDone /\ c_att (conn s k) = None /\
             c_reader (conn s k) = None) /\
  (forall p, p_closed (pc s p) = true /\ p_watcher (pc s p) = false /\ p_timer (pc s p) = false).
Proof.
  intros s I Hr. destruct (i_ret _ I Hr) as (A & B & C & D).
  pose proof (i_closing _ I A) as Hm. pose proof (i_closed _ I Hm) as Hl.
  assert (PC : forall p, p_closed (pc s p) = true).
  { intros p. destruct (p_closed (pc s p)) eqn:E; auto.
    destruct (i_open _ I p E) as (_ & W & _). rewrite D in W. discriminate. }
  repeat split; auto.
  - destruct (c_srv_closed (conn s k)) eqn:E; auto.
    destruct (k_oconn _ _ _ (i_conn _ I k) E) as [X|X]; [exfalso; apply X; auto|].
    destruct (c_att (conn s k)) as [p|] eqn:Ea; [|congruence].
    destruct (k_att _ _ _ (i_conn _ I k) _ Ea) as (_ & Y & _). rewrite PC in Y. discriminate.
  - destruct (c_att (conn s k)) as [p|] eqn:Ea; auto.
    destruct (k_att _ _ _ (i_conn _ I k) _ Ea) as (_ & Y & _). rewrite PC in Y. discriminate.
  - destruct (c_reader (conn s k)) as [p|] eqn:Ea; auto.
    destruct (k_rd _ _ _ (i_conn _ I k) _ Ea) as (_ & Y & _). rewrite PC in Y. discriminate.
  - destruct (p_timer (pc s p)) eqn:E; auto.
    destruct (i_timer _ I p E) as (Y & _). rewrite PC in Y. discriminate.
Qed.

(* Close returns only through OMuxCloseReturn, which needs the WaitGroup at zero *)
Lemma return_needs_wg_zero : forall s o,
  creturned s = false -> creturned (next s o) = true -> o = OMuxCloseReturn /\ wg_zero s = true /\ closing s = true.
Proof.
  intros s o H0.
  destruct o; try (case_step; intros; congruence).
  unfold next, step.
  destruct (closing s && negb (creturned s) && wg_zero s)%bool eqn:E; simpl; try congruence.
  intros _. apply andb_true_iff in E. destruct E as [E E3]. apply andb_true_iff in E. destruct E as [E1 E2]. auto.
Qed.

(* ------------------------------------------------------------------------------------------ *)
(* C15_close_complete: the variant.  After Close, no label increases [mu]; while it is positive a
   timer or goroutine label is enabled that decreases it; at zero the WaitGroup is at zero. *)

Definition w_conn (c : tconn) : nat :=
  match c_phase c with PPending => 4 | PRouted _ _ => 1 | PDone => 0 end.
Definition w_pc (q : pconn) : nat :=
  if p_closed q then (if p_watcher q then 1 else 0) else 2.
Fixpoint sumf {A} (f : A -> nat) (l : list A) : nat :=
  match l with [] => 0 | x :: r => f x + sumf f r end.
Definition mu (s : state) : nat :=
  (if acc_alive s then 1 else 0) + sumf (fun k => w_conn (conn s k)) (cids s)
  + sumf (fun p => w_pc (pc s p)) (seq 0 (npc s)).

Lemma sumf_le : forall {A} (f g : A -> nat) l, (forall x, In x l -> f x <= g x) -> sumf f l <= sumf g l.
Proof.
  induction l; simpl; intros; auto.
  pose proof (H a (or_introl eq_refl)). assert (sumf f l <= sumf g l) by (apply IHl; intros; apply H; auto). lia.
Qed.

Lemma sumf_lt : forall {A} (f g : A -> nat) l x0,
  (forall x, In x l -> f x <= g x) -> In x0 l -> f x0 < g x0 -> sumf f l < sumf g l.
Proof.
  induction l; simpl; intros x0 H Hin Hlt; [tauto|].
  pose proof (H a (or_introl eq_refl)).
  destruct Hin as [Hin|Hin].
  - subst. assert (sumf f l <= sumf g l) by (apply sumf_le; intros; apply H; auto). lia.
  - assert (sumf f l < sumf g l) by (eapply IHl; eauto). lia.
Qed.

Lemma sumf_pos : forall {A} (f : A -> nat) l, sumf f l > 0 -> exists x, In x l /\ f x > 0.
Proof.
  induction l; simpl; intros; [lia|].
  destruct (f a) eqn:E.
  - destruct IHl as [x [Hin Hx]]; [lia|]. exists x; auto.
  - exists a; split; auto; lia.
Qed.

Lemma sumf_zero : forall {A} (f : A -> nat) l, sumf f l = 0 -> forall x, In x l -> f x = 0.
Proof.
  induction l; simpl; intros H x Hin; [tauto|].
  destruct Hin; subst; [lia|]. apply IHl; auto; lia.
Qed.

Lemma sumf_seq_S : forall (f : nat -> nat) n, sumf f (seq 0 (S n)) = sumf f (seq 0 n) + f n.
Proof.
  intros f n. rewrite seq_S. simpl. generalize (seq 0 n). induction l; simpl; auto. lia.
Qed.

Lemma mclosed_stable : forall s o, mclosed s = true -> mclosed (next s o) = true.
Proof. intros s o H. destruct o; case_step; auto; congruence. Qed.

Lemma post_cids : forall s o, Inv s -> mclosed s = true -> cids (next s o) = cids s.
Proof.
  intros s o I Hm. pose proof (i_closed _ I Hm) as Hl.
  destruct o; case_step; auto. rewrite Hl in *. discriminate.
Qed.

Lemma post_wconn : forall s o k, Inv s -> mclosed s = true ->
  w_conn (conn (next s o) k) <= w_conn (conn s k).
Proof.
  intros s o k I Hm. pose proof (i_closed _ I Hm) as Hl.
  destruct o; case_step; auto; case_upd; auto;
    repeat match goal with H : Nat.eqb _ _ = true |- _ => apply Nat.eqb_eq in H; subst end;
    unfold w_conn, close_conn_of, reject; simpl;
    repeat match goal with H : c_phase _ = _ |- _ => rewrite H end; try lia.
  rewrite Hl in *. discriminate.
Qed.

Lemma post_wpc : forall s o p, p < npc s -> w_pc (pc (next s o) p) <= w_pc (pc s p).
Proof.
  intros s o p Hlt.
  assert (G : forall sel q, w_pc (close_pc_of sel p q) <= w_pc q).
  { intros sel q. unfold close_pc_of, w_pc. destruct (sel p); simpl; auto.
    destruct (p_closed q); destruct (p_watcher q); lia. }
  destruct o; case_step; auto; case_upd; auto;
    repeat match goal with H : Nat.eqb _ _ = true |- _ => apply Nat.eqb_eq in H; subst end;
    try lia; try apply G;
    try (unfold w_pc, close_pc_of; simpl; repeat match goal with |- context [if ?x then _ else _] => destruct x eqn:?; simpl end; simpl; try lia; fail).
  - eapply Nat.le_trans; [apply G|]. unfold w_pc; simpl. lia.
  - match goal with |- w_pc _ <= _ =>
      apply Nat.le_trans with (m := w_pc (close_pc_of (fun r : nat =>
             oeqb (mp s (p_ufrag (pc s p0)) false (p_ip (pc s p0))) r
             || oeqb (mp s (p_ufrag (pc s p0)) true (p_ip (pc s p0))) r)%bool p0 (pc s p0))) end.
    + unfold w_pc at 1; simpl. unfold w_pc.
      match goal with |- context [p_closed ?X] => destruct (p_closed X); destruct (p_watcher X); lia end.
    + apply G.
Qed.

Lemma sumf_le_by : forall {A} (f g : A -> nat) l x0 d,
  (forall x, In x l -> f x <= g x) -> In x0 l -> f x0 + d <= g x0 -> sumf f l + d <= sumf g l.
Proof.
  induction l; simpl; intros x0 d H Hin Hlt; [tauto|].
  pose proof (H a (or_introl eq_refl)).
  destruct Hin as [Hin|Hin].
  - subst. assert (sumf f l <= sumf g l) by (apply sumf_le; intros; apply H; auto). lia.
  - assert (sumf f l + d <= sumf g l) by (eapply IHl; eauto). lia.
Qed.

Lemma post_acc : forall s o, acc_alive (next s o) = true -> acc_alive s = true.
Proof. intros s o. destruct o; case_step; auto; congruence. Qed.

Lemma post_npc_same : forall s o, mclosed s = true ->
  (forall cid m, o <> OFirst cid m) -> npc (next s o) = npc s.
Proof.
  intros s o Hm Hn. destruct o; try (case_step; auto; congruence).
  exfalso; eapply Hn; eauto.
Qed.

Lemma mu_le_same_npc : forall s o, Inv s -> mclosed s = true -> npc (next s o) = npc s ->
  mu (next s o) <= mu s.
Proof.
  intros s o I Hm Hn. unfold mu. rewrite Hn, (post_cids s o I Hm).
  assert (A : (if acc_alive (next s o) then 1 else 0) <= (if acc_alive s then 1 else 0)).
  { destruct (acc_alive (next s o)) eqn:E; [rewrite (post_acc _ _ E); auto|]. destruct (acc_alive s); lia. }
  assert (B : sumf (fun k => w_conn (conn (next s o) k)) (cids s) <= sumf (fun k => w_conn (conn s k)) (cids s)).
  { apply sumf_le. intros; apply post_wconn; auto. }
  assert (C : sumf (fun p => w_pc (pc (next s o) p)) (seq 0 (npc s)) <= sumf (fun p => w_pc (pc s p)) (seq 0 (npc s))).
  { apply sumf_le. intros x Hx. apply in_seq in Hx. apply post_wpc; lia. }
  lia.
Qed.

Theorem mu_le : forall s o, Inv s -> mclosed s = true -> mu (next s o) <= mu s.
Proof.
  intros s o I Hm.
  destruct (Nat.eq_dec (npc (next s o)) (npc s)) as [E|E]; [apply mu_le_same_npc; auto|].
  destruct o; try (exfalso; apply E; apply post_npc_same; auto; intros; discriminate).
  (* OFirst creating a provisional packet conn after Close *)
  revert E. unfold mu. unfold next at 1 2 3 4 5 6, step.
  destruct (negb (memb cid (cids s))) eqn:Hin; simpl; try congruence.
  apply negb_false_iff in Hin. apply memb_In in Hin.
  destruct (c_phase (conn s cid)) eqn:Hp; simpl; try congruence.
  destruct (classify m) eqn:Hc; simpl; try congruence.
  destruct (negb (c_addr_ok (conn s cid))); simpl; try congruence.
  destruct (lookup cf s ufrag (c_is6 (conn s cid)) (c_lip (conn s cid))) eqn:Em; simpl; try congruence.
  destruct (cf_addr_ok cf); simpl; try congruence.
  intros _.
  match goal with |- context [?a + sumf ?F (seq 1 (npc s))] =>
    change (a + sumf F (seq 1 (npc s))) with (sumf F (seq 0 (S (npc s)))) end.
  rewrite sumf_seq_S. unfold upd at 3. rewrite Nat.eqb_refl. unfold w_pc at 2; simpl.
  assert (B : sumf (fun k => w_conn (upd (conn s) cid
                 (mkT (c_raddr (conn s cid)) (c_is6 (conn s cid)) (c_lip (conn s cid)) (c_addr_ok (conn s cid))
                      (PRouted (npc s) bytes) None None None (c_stream (conn s cid)) (c_cli_closed (conn s cid))
                      false false (c_out (conn s cid)) [bytes] [] (Some (npc s)) false) k)) (cids s) + 3
              <= sumf (fun k => w_conn (conn s k)) (cids s)).
  { apply sumf_le_by with (x0 := cid); auto.
    - intros x _. unfold upd. destruct (Nat.eqb x cid) eqn:K; auto.
      apply Nat.eqb_eq in K; subst. unfold w_conn; simpl. rewrite Hp. lia.
    - unfold upd. rewrite Nat.eqb_refl. unfold w_conn; simpl. rewrite Hp. lia. }
  assert (C : sumf (fun p => w_pc (upd (pc s) (npc s)
                 (mkP ufrag (c_is6 (conn s cid)) (c_lip (conn s cid)) false (cf_alive cf) true 0 true) p)) (seq 0 (npc s))
              <= sumf (fun p => w_pc (pc s p)) (seq 0 (npc s))).
  { apply sumf_le. intros x Hx. apply in_seq in Hx. unfold upd.
    destruct (Nat.eqb x (npc s)) eqn:K; auto. apply Nat.eqb_eq in K; lia. }
  lia.
Qed.

Definition internal (o : op) : Prop :=
  match o with
  | OAcceptExit | ODeadline _ | OAttach _ | OExpire _ _ _ | OWatcher _ => True
  | _ => False
  end.

Lemma mu_strict : forall s o, Inv s -> mclosed s = true -> npc (next s o) = npc s ->
  ((acc_alive s = true /\ acc_alive (next s o) = false) \/
   (exists k, In k (cids s) /\ w_conn (conn (next s o) k) < w_conn (conn s k)) \/
   (exists p, p < npc s /\ w_pc (pc (next s o) p) < w_pc (pc s p))) ->
  mu (next s o) < mu s.
Proof.
  intros s o I Hm Hn H. unfold mu. rewrite Hn, (post_cids s o I Hm).
  assert (A : (if acc_alive (next s o) then 1 else 0) <= (if acc_alive s then 1 else 0)).
  { destruct (acc_alive (next s o)) eqn:E; [rewrite (post_acc _ _ E); auto|]. destruct (acc_alive s); lia. }
  assert (B : sumf (fun k => w_conn (conn (next s o) k)) (cids s) <= sumf (fun k => w_conn (conn s k)) (cids s)).
  { apply sumf_le. intros; apply post_wconn; auto. }
  assert (C : sumf (fun p => w_pc (pc (next s o) p)) (seq 0 (npc s)) <= sumf (fun p => w_pc (pc s p)) (seq 0 (npc s))).
  { apply sumf_le. intros x Hx. apply in_seq in Hx. apply post_wpc; lia. }
  destruct H as [[H1 H2]|[[k [Hk Hlt]]|[p [Hp Hlt]]]].
  - rewrite H1, H2 in *. lia.
  - assert (B' : sumf (fun k => w_conn (conn (next s o) k)) (cids s) < sumf (fun k => w_conn (conn s k)) (cids s)).
    { apply sumf_lt with (x0 := k); auto. intros; apply post_wconn; auto. }
    lia.
  - assert (C' : sumf (fun p => w_pc (pc (next s o) p)) (seq 0 (npc s)) < sumf (fun p => w_pc (pc s p)) (seq 0 (npc s))).
    { apply sumf_lt with (x0 := p); auto.
      - intros x Hx. apply in_seq in Hx. apply post_wpc; lia.
      - apply in_seq. lia. }
    lia.
Qed.

Theorem mu_progress : forall s, Inv s -> mclosed s = true ->
  cf_first_timeout cf = true -> cf_alive cf = true -> mu s > 0 ->
  exists o, internal o /\ mu (next s o) < mu s.
Proof.
  intros s I Hm Hft Hal Hpos.
  pose proof (i_closed _ I Hm) as Hl.
  destruct (acc_alive s) eqn:Ha.
  { exists OAcceptExit. split; [exact Logic.I|].
    apply mu_strict; auto.
    - unfold next, step. rewrite Ha, Hl; reflexivity.
    - left. split; auto. unfold next, step. rewrite Ha, Hl; reflexivity. }
  unfold mu in Hpos. rewrite Ha in Hpos.
  destruct (Nat.eq_dec (sumf (fun k => w_conn (conn s k)) (cids s)) 0) as [Ec|Ec].
  - (* some packet conn still has weight *)
    assert (Hp : sumf (fun p => w_pc (pc s p)) (seq 0 (npc s)) > 0) by lia.
    apply sumf_pos in Hp. destruct Hp as [p [Hin Hw]]. apply in_seq in Hin.
    unfold w_pc in Hw. destruct (p_closed (pc s p)) eqn:Hc.
    + destruct (p_watcher (pc s p)) eqn:Hwa; [|lia].
      exists (OWatcher p). split; [exact Logic.I|].
      assert (Hlt : Nat.ltb p (npc s) = true) by (apply Nat.ltb_lt; lia).
      apply mu_strict; auto.
      * unfold next, step. rewrite Hlt, Hwa, Hc; reflexivity.
      * right; right. exists p. split; [lia|].
        unfold next, step. rewrite Hlt, Hwa, Hc; simpl. unfold upd; rewrite Nat.eqb_refl.
        unfold w_pc; simpl. rewrite Hc, Hwa.
        unfold close_pc_of. destruct (cf_byid cf); [simpl; rewrite ?Hc; lia|]. destruct (_ || _)%bool; simpl; rewrite ?Hc; lia.
    + destruct (i_open _ I p Hc) as (A & B & C).
      pose proof (i_post _ I Hm p Hc) as Ht. rewrite Hal in Ht.
      exists (OExpire (p_ufrag (pc s p)) (p_is6 (pc s p)) (p_ip (pc s p))). split; [exact Logic.I|].
      apply mu_strict; auto.
      * unfold next, step. rewrite C, Ht; reflexivity.
      * right; right. exists p. split; [lia|].
        unfold next, step. rewrite C, Ht; simpl. unfold close_pc_of. rewrite Nat.eqb_refl.
        unfold w_pc; simpl. rewrite Hc, B. lia.
  - assert (Hk : sumf (fun k => w_conn (conn s k)) (cids s) > 0) by lia.
    apply sumf_pos in Hk. destruct Hk as [k [Hin Hw]].
    pose proof Hin as Hmem. apply memb_In in Hmem.
    unfold w_conn in Hw. destruct (c_phase (conn s k)) as [|p b|] eqn:Hp; [| |lia].
    + destruct (k_pend _ _ _ (i_conn _ I k) Hp) as (_ & _ & _ & _ & _ & _ & Hdl & _).
      exists (ODeadline k). split; [exact Logic.I|].
      apply mu_strict; auto.
      * unfold next, step. rewrite Hmem, Hp, Hdl, Hft; reflexivity.
      * right; left. exists k. split; auto.
        unfold next, step. rewrite Hmem, Hp, Hdl, Hft; simpl. unfold upd; rewrite Nat.eqb_refl.
        unfold w_conn; simpl. rewrite Hp. lia.
    + exists (OAttach k). split; [exact Logic.I|].
      apply mu_strict; auto.
      * unfold next, step. rewrite Hmem, Hp; simpl.
        destruct (p_closed (pc s p)); simpl; auto. destruct (find_att s p (c_raddr (conn s k))); reflexivity.
      * right; left. exists k. split; auto.
        unfold next, step. rewrite Hmem, Hp; simpl.
        destruct (p_closed (pc s p)); simpl; [|destruct (find_att s p (c_raddr (conn s k))); simpl];
          unfold upd; rewrite Nat.eqb_refl; unfold w_conn; simpl; rewrite Hp; lia.
Qed.

Lemma mu_zero_wg : forall s, Inv s -> mu s = 0 -> wg_zero s = true.
Proof.
  intros s I H. unfold mu in H. unfold wg_zero.
  destruct (acc_alive s); [lia|]. simpl.
  assert (Hc : sumf (fun k => w_conn (conn s k)) (cids s) = 0) by lia.
  assert (Hp : sumf (fun p => w_pc (pc s p)) (seq 0 (npc s)) = 0) by lia.
  assert (N1 : n_handlers s = 0).
  { unfold n_handlers. assert (X : forall l, (forall k, In k l -> w_conn (conn s k) = 0) ->
        length (filter (fun k => handler_alive (conn s k)) l) = 0).
    { induction l; simpl; intros Y; auto.
      pose proof (Y a (or_introl eq_refl)) as Z. unfold w_conn in Z. unfold handler_alive at 1.
      destruct (c_phase (conn s a)); try lia. apply IHl. intros; apply Y; auto. }
    apply X. intros k Hk. eapply (sumf_zero _ _ Hc); eauto. }
  assert (N2 : n_watchers s = 0).
  { unfold n_watchers. assert (X : forall l, (forall p, In p l -> w_pc (pc s p) = 0) ->
        length (filter (fun q => p_watcher (pc s q)) l) = 0).
    { induction l; simpl; intros Y; auto.
      pose proof (Y a (or_introl eq_refl)) as Z. unfold w_pc in Z.
      destruct (p_closed (pc s a)); [|lia]. destruct (p_watcher (pc s a)); [lia|]. apply IHl. intros; apply Y; auto. }
    apply X. intros p Hk. eapply (sumf_zero _ _ Hp); eauto. }
  rewrite N1, N2. reflexivity.
Qed.

(* from any state after Close, a schedule of at most [mu] timer / goroutine labels empties the
   WaitGroup, so that Close can return *)
Theorem close_terminates : forall n s, Inv s -> mclosed s = true ->
  cf_first_timeout cf = true -> cf_alive cf = true -> mu s <= n ->
  exists ops, Forall internal ops /\ length ops <= n /\ wg_zero (run cf s ops) = true /\ Inv (run cf s ops).
Proof.
  induction n; intros s I Hm Hft Hal Hle.
  - exists []. simpl. split; [constructor|]. split; [lia|]. split; [|exact I]. apply mu_zero_wg; auto. lia.
  - destruct (Nat.eq_dec (mu s) 0) as [E|E].
    + exists []. simpl. split; [constructor|]. split; [lia|]. split; [|exact I]. apply mu_zero_wg; auto.
    + destruct (mu_progress s I Hm Hft Hal) as [o [Hi Hlt]]; [lia|].
      destruct (IHn (next s o)) as [ops [F [L [W J]]]]; auto.
      * apply inv_step; auto.
      * apply mclosed_stable; auto.
      * lia.
      * exists (o :: ops). simpl. split; [constructor; auto|]. split; [lia|]. split; auto.
Qed.

Lemma return_enabled : forall s, closing s = true -> creturned s = false -> wg_zero s = true ->
  creturned (next s OMuxCloseReturn) = true.
Proof. intros s A B C. unfold next, step. rewrite A, B, C; reflexivity. Qed.

(* ------------------------------------------------------------------------------------------ *)
(* what the stale watcher can break, and that nothing else does *)

(* no closed packet conn whose createConn goroutine has not yet run removeConnByUfragAndLocalHost *)
Definition no_pending_watcher (s : state) : Prop :=
  forall q, p_closed (pc s q) = true -> p_watcher (pc s q) = false.

Lemma get_returns_open : forall s h u is6 ip, Inv s ->
  (cf_byid cf = true \/ no_pending_watcher s) ->
  mclosed s = false -> cf_addr_ok cf = true ->
  let s' := next s (OGet h u is6 ip) in
  exists p, hnd s' h = Some (p, false) /\ p_closed (pc s' p) = false /\ mp s' u is6 ip = Some p /\
            p_ufrag (pc s' p) = u /\ p_is6 (pc s' p) = is6 /\ p_ip (pc s' p) = ip /\ p_timer (pc s' p) = false.
Proof.
  intros s h u is6 ip I Q Hm Ha. simpl. unfold next, step. rewrite Hm.
  destruct (lookup cf s u is6 ip) as [p|] eqn:El; simpl.
  - destruct (lookup_some _ _ _ _ _ El) as (Em & Hopen).
    exists p. unfold upd. rewrite !Nat.eqb_refl. simpl.
    destruct (i_mp _ I _ _ _ _ Em) as (A & B & C & D).
    repeat split; auto.
    destruct Q as [Q|Q]; auto.
    destruct (p_closed (pc s p)) eqn:Hc; auto.
    pose proof (i_cm _ I _ _ _ _ Em Hc) as W. rewrite (Q p Hc) in W. discriminate.
  - rewrite Ha; simpl. exists (npc s). unfold upd. rewrite !Nat.eqb_refl. simpl.
    rewrite !String.eqb_refl, Bool.eqb_reflx. simpl. repeat split; auto.
Qed.

Lemma no_spurious_close : forall s o p, Inv s ->
  (cf_byid cf = true \/
   forall q, q <> p -> p_closed (pc s q) = true -> p_watcher (pc s q) = true ->
             ~ (p_ufrag (pc s q) = p_ufrag (pc s p) /\ p_ip (pc s q) = p_ip (pc s p))) ->
  p_closed (pc s p) = false -> p_closed (pc (next s o) p) = true ->
  match o with
  | ORemove u => u = p_ufrag (pc s p)
  | OHClose h => hnd s h = Some (p, false) /\ (p_refs (pc s p) - 1 <= 0)%Z
  | OExpire u f i => mp s u f i = Some p /\ p_timer (pc s p) = true
  | OMuxClose => mclosed s = false
  | _ => False
  end.
Proof.
  intros s o p I Q Ho Hc. pose proof (closed_only_by s o p I Ho Hc) as H.
  destruct o; auto.
  destruct H as (Hb & A & B & C & D & E). destruct Q as [Q|Q]; [congruence|]. eapply Q; eauto.
Qed.

(* ------------------------------------------------------------------------------------------ *)
(* statements over histories (every label list from the initial state) *)

Definition reject_label (s : state) (cid : nat) (o : op) : Prop :=
  (exists m, o = OFirst cid m /\ bad_class m) \/
  (o = ODeadline cid /\ cf_first_timeout cf = true) \/
  (o = OClientClose cid /\ c_cli_closed (conn s cid) = false).

Theorem rejects_all : forall ops1 cid o ops2,
  let s1 := run cf init ops1 in
  In cid (cids s1) -> c_phase (conn s1 cid) = PPending -> reject_label s1 cid o ->
  let s := run cf (next s1 o) ops2 in
  c_srv_closed (conn s cid) = true /\ c_att (conn s cid) = None /\ c_reader (conn s cid) = None /\
  c_got (conn s cid) = [] /\ c_route (conn s cid) = None /\ c_phase (conn s cid) = PDone.
Proof.
  intros ops1 cid o ops2 s1 Hin Hp Hl s.
  pose proof (inv_reach ops1) as I1. fold s1 in I1.
  assert (Hr : c_rejected (conn (next s1 o) cid) = true).
  { destruct Hl as [[m [E B]]|[[E B]|[E B]]]; subst o.
    - apply first_bad_rejects; auto.
    - apply late_rejects; auto.
    - apply early_close_rejects; auto. }
  destruct (rejected_forever ops2 (next s1 o) cid (inv_step _ _ I1) Hr) as (A & B & C & D & E & F & G).
  repeat split; auto.
Qed.

Lemma route_fixed_run : forall ops2 s k p, Inv s -> c_route (conn s k) = Some p ->
  let s' := run cf s ops2 in
  c_route (conn s' k) = Some p /\ p < npc s /\
  p_ufrag (pc s' p) = p_ufrag (pc s p) /\ p_is6 (pc s' p) = p_is6 (pc s p) /\ p_ip (pc s' p) = p_ip (pc s p).
Proof.
  induction ops2; simpl; intros s k p I Hr.
  - repeat split; auto. apply (k_route_lt _ _ _ (i_conn _ I k) _ Hr).
  - pose proof (k_route_lt _ _ _ (i_conn _ I k) _ Hr) as Hlt.
    destruct (IHops2 (next s a) k p (inv_step _ _ I) (route_stable _ _ _ _ I Hr)) as (A & B & C & D & E).
    destruct (key_stable s a p Hlt) as (K1 & K2 & K3).
    fold (next s a). repeat split; auto; congruence.
Qed.

Theorem route_fixed : forall ops ops2 k p,
  let s := run cf init ops in
  c_route (conn s k) = Some p ->
  let s' := run cf s ops2 in
  c_route (conn s' k) = Some p /\ p < npc s /\
  p_ufrag (pc s' p) = p_ufrag (pc s p) /\ p_is6 (pc s' p) = p_is6 (pc s p) /\ p_ip (pc s' p) = p_ip (pc s p).
Proof. intros ops ops2 k p s Hr. apply route_fixed_run; auto. apply inv_reach. Qed.

(* every delivery: who may deliver what to whom *)
Theorem delivery_sound : forall ops h cid a b s',
  let s := run cf init ops in
  step cf s (ORead h cid) = (s', XPkt a b) ->
  exists p rest,
    hnd s h = Some (p, false) /\ p_closed (pc s p) = false /\
    c_route (conn s cid) = Some p /\ c_reader (conn s cid) = Some p /\
    a = c_raddr (conn s cid) /\
    c_msgs (conn s cid) = c_got (conn s cid) ++ b :: rest /\
    c_got (conn s' cid) = c_got (conn s cid) ++ [b] /\
    c_rejected (conn s cid) = false.
Proof.
  intros ops h cid a b s' s Hs.
  destruct (read_needs_reader _ _ _ _ _ _ Hs) as (p & H1 & H2 & H3 & H4 & H5 & H6 & H7 & H8).
  pose proof (i_conn _ (inv_reach ops) cid) as Hc. fold s in Hc.
  destruct (k_rd _ _ _ Hc _ H2) as (A & B & C & D).
  pose proof (k_exact _ _ _ Hc _ H2) as X. rewrite H3 in X. unfold held in X. rewrite H3 in X. simpl in X.
  exists p, (c_stream (conn s cid)). repeat split; auto.
  destruct (c_rejected (conn s cid)) eqn:R; auto.
  destruct (k_rej _ _ _ Hc R) as (_ & _ & _ & Y & _). congruence.
Qed.

Theorem write_same_conn_hist : forall ops h p r b k,
  let s := run cf init ops in
  hnd s h = Some (p, false) -> find_att s p r = Some k -> c_cli_closed (conn s k) = false ->
  (cf_wbuf cf = false \/ cf_wdrop cf = false \/ (slen b + streamingPacketHeaderLen <= receiveMTU)%Z) ->
  let s' := next s (OWrite h r b) in
  snd (step cf s (OWrite h r b)) = XN (slen b) /\
  c_out (conn s' k) = c_out (conn s k) ++ [b] /\
  (forall k', k' <> k -> conn s' k' = conn s k') /\
  c_route (conn s k) = Some p /\ c_raddr (conn s k) = r /\
  (forall k', c_att (conn s k') = Some p -> c_raddr (conn s k') = r -> k' = k).
Proof. intros ops h p r b k s. apply write_same_conn. apply inv_reach. Qed.

Theorem open_pc_registered_hist : forall ops p,
  let s := run cf init ops in
  p_closed (pc s p) = false ->
  mp s (p_ufrag (pc s p)) (p_is6 (pc s p)) (p_ip (pc s p)) = Some p.
Proof. intros ops p s. apply open_pc_registered. apply inv_reach. Qed.

Theorem get_returns_open_hist : forall ops h u is6 ip,
  let s := run cf init ops in
  (cf_byid cf = true \/ no_pending_watcher s) -> mclosed s = false -> cf_addr_ok cf = true ->
  let s' := next s (OGet h u is6 ip) in
  exists p, hnd s' h = Some (p, false) /\ p_closed (pc s' p) = false /\ mp s' u is6 ip = Some p /\
            p_ufrag (pc s' p) = u /\ p_is6 (pc s' p) = is6 /\ p_ip (pc s' p) = ip /\ p_timer (pc s' p) = false.
Proof. intros ops h u is6 ip s. apply get_returns_open. apply inv_reach. Qed.

Theorem no_spurious_close_hist : forall ops o p,
  let s := run cf init ops in
  (cf_byid cf = true \/
   forall q, q <> p -> p_closed (pc s q) = true -> p_watcher (pc s q) = true ->
             ~ (p_ufrag (pc s q) = p_ufrag (pc s p) /\ p_ip (pc s q) = p_ip (pc s p))) ->
  p_closed (pc s p) = false -> p_closed (pc (next s o) p) = true ->
  match o with
  | ORemove u => u = p_ufrag (pc s p)
  | OHClose h => hnd s h = Some (p, false) /\ (p_refs (pc s p) - 1 <= 0)%Z
  | OExpire u f i => mp s u f i = Some p /\ p_timer (pc s p) = true
  | OMuxClose => mclosed s = false
  | _ => False
  end.
Proof. intros ops o p s. apply no_spurious_close. apply inv_reach. Qed.

Theorem closed_only_by_hist : forall ops o p,
  let s := run cf init ops in
  p_closed (pc s p) = false -> p_closed (pc (next s o) p) = true ->
  match o with
  | ORemove u => u = p_ufrag (pc s p)
  | OHClose h => hnd s h = Some (p, false) /\ (p_refs (pc s p) - 1 <= 0)%Z
  | OExpire u f i => mp s u f i = Some p /\ p_timer (pc s p) = true
  | OMuxClose => mclosed s = false
  | OWatcher q => cf_byid cf = false /\ q <> p /\ p_closed (pc s q) = true /\ p_watcher (pc s q) = true /\
                  p_ufrag (pc s q) = p_ufrag (pc s p) /\ p_ip (pc s q) = p_ip (pc s p)
  | _ => False
  end.
Proof. intros ops o p s. apply closed_only_by. apply inv_reach. Qed.

Theorem expiry_hist : forall ops u is6 ip p,
  let s := run cf init ops in
  mp s u is6 ip = Some p ->
  (p_timer (pc s p) = true ->
     let s' := next s (OExpire u is6 ip) in
     p_closed (pc s' p) = true /\ p_timer (pc s' p) = false /\
     (forall k, c_att (conn s k) = Some p ->
                c_srv_closed (conn s' k) = true /\ c_att (conn s' k) = None /\ c_reader (conn s' k) = None) /\
     (forall k, c_reader (conn s k) = Some p -> c_reader (conn s' k) = None)) /\
  (mclosed s = false -> lookup cf s u is6 ip = Some p -> forall h ops2,
     let s1 := next s (OGet h u is6 ip) in
     let s2 := run cf s1 ops2 in
     hnd s1 h = Some (p, false) /\ p_timer (pc s2 p) = false /\
     (mp s2 u is6 ip = Some p -> next s2 (OExpire u is6 ip) = s2)).
Proof.
  intros ops u is6 ip p s Hm. pose proof (inv_reach ops) as I. fold s in I. split.
  - intros Ht. apply expire_closes; auto.
  - intros Hc Hl h ops2 s1 s2.
    destruct (claim_disarms s h u is6 ip p Hc Hl) as (_ & Hh & T & _). split; [exact Hh|].
    destruct (i_mp _ I _ _ _ _ Hm) as (Hlt & _).
    assert (T2 : p_timer (pc s2 p) = false).
    { apply timer_off_forever; auto. pose proof (npc_mono s (OGet h u is6 ip)). unfold s1, next in *. lia. }
    split; auto. intros Hm2. eapply unarmed_expire_noop; eauto.
Qed.

Theorem close_complete_safety_hist : forall ops,
  let s := run cf init ops in
  creturned s = true ->
  lopen s = false /\ mclosed s = true /\ acc_alive s = false /\
  (forall k, c_srv_closed (conn s k) = true /\ c_phase (conn s k) = PDone /\ c_att (conn s k) = None /\
             c_reader (conn s k) = None) /\
  (forall p, p_closed (pc s p) = true /\ p_watcher (pc s p) = false /\ p_timer (pc s p) = false).
Proof. intros ops s. apply close_complete_safety. apply inv_reach. Qed.

Theorem close_terminates_hist : forall ops,
  let s := run cf init ops in
  mclosed s = true -> cf_first_timeout cf = true -> cf_alive cf = true ->
  (forall o, mu (next s o) <= mu s) /\
  exists ops2, Forall internal ops2 /\ length ops2 <= mu s /\ wg_zero (run cf s ops2) = true /\
               (closing (run cf s ops2) = true -> creturned (run cf s ops2) = false ->
                creturned (next (run cf s ops2) OMuxCloseReturn) = true).
Proof.
  intros ops s Hm Hft Hal. pose proof (inv_reach ops) as I. fold s in I. split.
  - intros o. apply mu_le; auto.
  - destruct (close_terminates (mu s) s I Hm Hft Hal (Nat.le_refl _)) as [ops2 [F [L [W J]]]].
    exists ops2. repeat split; auto. intros A B. apply return_enabled; auto.
Qed.

End WithCfg.

(* data of the non-vacuity example in Props/C15.v *)
Definition ex_cfg : cfg := mkCfg true true false true true false.
Definition ex_first (u : string) : first_msg := mkFirst 32 true (Some (u ++ ":peer")%string) "BIND"%string.
Definition ex_bad : first_msg := mkFirst 600 true (Some "u1:peer"%string) "BIG"%string.
