(* C02: unauthenticated or mismatched STUN never influences the agent.  Step-level lemmas about
   AgentCore.handle_inbound for ARBITRARY states (hence for every reachable one, incl. after Restart). *)
From Coq Require Import ZArith Bool List Lia.
From Ice Require Import Model.AgentTypes Model.AgentCore Gen.Consts Gen.Lifecycle.
Import ListNotations.
Local Open Scope Z_scope.

Definition request_authentic (s : state) (m : msg) : bool :=
  match m_user m with
  | Some (a, b) => (a =? s_lufrag s) && (b =? s_rufrag s)
  | None => false
  end &&
  match m_key m with Some k => k =? s_lpwd s | None => false end.

Definition response_authentic (s : state) (m : msg) : bool :=
  match m_key m with Some k => k =? s_rpwd s | None => false end.

Lemma handle_inbound_bad_request cfg s l src m :
  m_class m = 0 -> request_authentic s m = false ->
  handle_inbound cfg l src m s = (s, []).
Proof.
  intros Hc Ha. unfold handle_inbound.
  destruct (canHandleInbound (m_method m) (m_class m)); [|reflexivity].
  cbn [negb]. unfold with_state. rewrite Hc. cbn [Z.eqb].
  unfold handle_inbound_request, with_state.
  unfold request_authentic in Ha.
  destruct (m_user m) as [[a b]|]; [|reflexivity].
  destruct ((a =? s_lufrag s) && (b =? s_rufrag s)) eqn:Hu; [|reflexivity].
  cbn [negb]. cbn [andb] in Ha.
  destruct (m_key m) as [k|]; [|reflexivity].
  rewrite Ha. reflexivity.
Qed.

Lemma handle_inbound_bad_response cfg s l src m :
  m_class m = 2 ->
  (response_authentic s m = false \/ find_remote (c_net l) src s = None) ->
  handle_inbound cfg l src m s = (s, []).
Proof.
  intros Hc Ha. unfold handle_inbound.
  destruct (canHandleInbound (m_method m) (m_class m)); [|reflexivity].
  cbn [negb]. unfold with_state. rewrite Hc. cbn [Z.eqb Pos.eqb].
  unfold response_authentic in Ha.
  destruct (m_key m) as [k|].
  - destruct (k =? s_rpwd s) eqn:Hk; [|reflexivity]. cbn [negb].
    destruct Ha as [Ha|Ha]; [discriminate|]. rewrite Ha. reflexivity.
  - reflexivity.
Qed.

(* error responses and non-Binding methods *)
Lemma handle_inbound_unhandled cfg s l src m :
  (m_class m = 3 \/ m_method m <> 1) ->
  handle_inbound cfg l src m s = (s, []).
Proof.
  intros H. unfold handle_inbound.
  assert (E : canHandleInbound (m_method m) (m_class m) = false).
  { unfold canHandleInbound. destruct H as [H|H].
    - rewrite H. cbn. now rewrite Bool.andb_false_r.
    - apply Z.eqb_neq in H. rewrite H. reflexivity. }
  rewrite E. reflexivity.
Qed.

(* a Binding indication can at most refresh the liveness timestamp of an already known remote *)
Lemma handle_inbound_indication cfg s l src m :
  m_class m = 1 ->
  handle_inbound cfg l src m s = (s, []) \/
  exists rc, find_remote (c_net l) src s = Some rc /\
             handle_inbound cfg l src m s = (set_s_lastrecv (assoc_set (c_h rc) (s_now s) (s_lastrecv s)) s, []).
Proof.
  intros Hc. unfold handle_inbound.
  destruct (canHandleInbound (m_method m) (m_class m)); [|left; reflexivity].
  cbn [negb]. unfold with_state. rewrite Hc. cbn [Z.eqb Pos.eqb].
  destruct (find_remote (c_net l) src s) as [rc|]; [|left; reflexivity].
  right. exists rc. split; reflexivity.
Qed.

(* a correctly signed response without a live, matching transaction changes only the pending list
   (expiry purge, and the consumed entry when only the source/transport is wrong) and the
   liveness timestamp of the known remote it came from *)
Definition only_pending_and_liveness (s s' : state) : Prop :=
  exists pend lr, s' = set_s_lastrecv lr (set_s_pending pend s).

Definition live_matching_tx (cfg : config) (s : state) (l : cand) (src : addr) (tx : Z) : bool :=
  match take_pending tx (filter (fun q => since cfg s (q_ts q) <? maxBindingRequestTimeout) (s_pending s)) with
  | Some (q, _) => response_symmetric q l src
  | None => false
  end.

Lemma set_lastrecv_pending_commute a b s :
  set_s_pending a (set_s_lastrecv b s) = set_s_lastrecv b (set_s_pending a s).
Proof. reflexivity. Qed.

Lemma handle_success_no_match cfg (ctl : bool) s l rc src m :
  live_matching_tx cfg s l src (m_tx m) = false ->
  exists pend,
    (if ctl then handle_success_controlling cfg m l rc src else handle_success_controlled cfg m l rc src) s
    = (set_s_pending pend s, []).
Proof.
  intros H. unfold live_matching_tx in H.
  destruct ctl; unfold handle_success_controlling, handle_success_controlled, seq, invalidate_pending, modify, with_state;
    cbn [fst snd s_pending set_s_pending];
    set (pf := filter (fun q => since cfg s (q_ts q) <? maxBindingRequestTimeout) (s_pending s)) in *;
    (destruct (take_pending (m_tx m) pf) as [[q rest]|];
     [ rewrite H; cbn [negb]; eexists; unfold nop; cbn; reflexivity
     | eexists; unfold nop; cbn; reflexivity ]).
Qed.

Lemma handle_inbound_response_needs_tx cfg s l src m :
  m_class m = 2 ->
  live_matching_tx cfg s l src (m_tx m) = false ->
  exists s', handle_inbound cfg l src m s = (s', []) /\ (s' = s \/ only_pending_and_liveness s s').
Proof.
  intros Hc Hn. unfold handle_inbound.
  destruct (canHandleInbound (m_method m) (m_class m)); [|exists s; split; [reflexivity|left; reflexivity]].
  cbn [negb]. unfold with_state at 1. rewrite Hc. cbn [Z.eqb Pos.eqb].
  destruct (m_key m) as [k|]; [|exists s; split; [reflexivity|left; reflexivity]].
  destruct (k =? s_rpwd s); [|exists s; split; [reflexivity|left; reflexivity]]. cbn [negb].
  destruct (find_remote (c_net l) src s) as [rc|]; [|exists s; split; [reflexivity|left; reflexivity]].
  unfold seq, dispatch_success, with_state.
  destruct (handle_success_no_match cfg (s_ctl s) s l rc src m Hn) as [pend E].
  rewrite E. unfold seen, modify. cbn [fst snd app].
  eexists. split; [reflexivity|]. right. exists pend. eexists. reflexivity.
Qed.

(* the step function: the operation as a whole leaves the state untouched and emits nothing *)
Lemma step_instun_inert cfg s lh src m :
  (forall l, handle_inbound cfg l src m s = (s, [])) ->
  step cfg s (InStun lh src m) = (s, []).
Proof.
  intros H. unfold step, step_m, with_state. destruct (s_closed s); [reflexivity|].
  destruct (find_local lh s); [apply H|reflexivity].
Qed.

(* stale generation: after Restart, traffic that was valid only under the ended generation's
   credentials is unauthentic *)
Lemma restart_creds lu lp s :
  s_closed s = false ->
  let s' := fst (do_restart lu lp s) in
  s_lufrag s' = lu /\ s_lpwd s' = lp /\ s_rufrag s' = 0 /\ s_rpwd s' = 0.
Proof.
  intros Hc. unfold do_restart, with_state. rewrite Hc.
  unfold seq, modify, set_selector, with_state, emit, nop, update_conn. cbn.
  repeat match goal with |- context [if ?c then _ else _] => destruct c; cbn end; repeat split; reflexivity.
Qed.
