(* C18, mapped server-reflexive gatherer: what the model (Model/GatherMapped.v) guarantees, and the two clauses of the
   property it refutes. *)
From Coq Require Import ZArith Bool List String Lia.
From Ice Require Import Gen.Names Gen.Prio Model.PrioSpec Model.GatherSpec Model.GatherMapped Proofs.GatherSpecProofs.
Import ListNotations.
Local Open Scope Z_scope.

Lemma udp_nt_of nt : In nt all_nts -> NetworkType_IsTCP nt = false -> nt_of TUdp (NetworkType_IsIPv6 nt) = nt.
Proof. unfold all_nts. intros [<-|[<-|[<-|[<-|[]]]]]; vm_compute; intros H; try reflexivity; discriminate H. Qed.

(* every candidate of the model: server reflexive (and that type is enabled), on a socket the agent opened on the
   wildcard address of an enabled UDP family, with port and related port inside the configured range, published,
   not location-tracked *)
Theorem mapped_sound sk c e res d : nts_ok c ->
  In d (mapped_model sk c e res) ->
  d_type d = 2 /\ In 2 (c_ctypes c) /\ d_pub d = true /\
  exists is6 ps a, d_base d = Some (wild is6, ps) /\ d_sock d = Some (wild is6) /\ d_port d = ps /\ d_disp d = DIP a /\
    In (nt_of TUdp is6) (eff_nts (c_ntypes c)) /\ location_tracked a = false /\
    (res is6 <> None) /\ (forall p, port_ok ps p = true -> in_cfg_range c p = true).
Proof.
  intros Hok. unfold mapped_model. destruct (mem 2 (c_ctypes c)) eqn:Em; cbn [negb]; [|intros []].
  rewrite in_flat_map. intros [nt [Hnt H]]. destruct (NetworkType_IsTCP nt) eqn:Et; [destruct H|].
  unfold mapped_one in H. destruct (listen_spec e (wild (NetworkType_IsIPv6 nt)) (c_pmin c) (c_pmax c)) as [ps|] eqn:El; [|destruct H].
  destruct (res (NetworkType_IsIPv6 nt)) as [exts|] eqn:Er; [|destruct H].
  apply in_flat_map in H. destruct H as [x [Hx H]].
  destruct (location_tracked x || (sk && is_unspec x)) eqn:Ef; [destruct H|]. destruct H as [<-|[]].
  cbn [d_type d_pub d_base d_sock d_port d_disp].
  apply orb_false_iff in Ef. destruct Ef as [Elt _].
  split; [reflexivity|]. split; [apply mem_In; exact Em|]. split; [reflexivity|].
  exists (NetworkType_IsIPv6 nt), ps, x.
  split; [reflexivity|]. split; [reflexivity|]. split; [reflexivity|]. split; [reflexivity|].
  split; [rewrite udp_nt_of; [exact Hnt|apply (eff_nts_ok c Hok); exact Hnt|exact Et]|].
  split; [exact Elt|]. split; [rewrite Er; discriminate|].
  intros p Hp. exact (listen_spec_range c e _ ps p El Hp).
Qed.

(* the repaired code never publishes an unspecified address *)
Theorem mapped_not_unspecified c e res d a :
  In d (mapped_model true c e res) -> d_disp d = DIP a -> is_unspec a = false.
Proof.
  unfold mapped_model. destruct (negb (mem 2 (c_ctypes c))); [intros []|].
  rewrite in_flat_map. intros [nt [Hnt H]]. destruct (NetworkType_IsTCP nt); [destruct H|].
  unfold mapped_one in H. destruct (listen_spec _ _ _ _); [|destruct H]. destruct (res _); [|destruct H].
  apply in_flat_map in H. destruct H as [x [Hx H]].
  destruct (location_tracked x || (true && is_unspec x)) eqn:Ef; [destruct H|]. destruct H as [<-|[]]. cbn.
  intros E. injection E as <-. apply orb_false_iff in Ef. destruct Ef as [_ Eu]. exact Eu.
Qed.

(* ---- what the property says and the gatherer does not do ------------------------------------------------------ *)
Definition mex_cfg (iff : option (string -> bool)) : cfg :=
  mkCfg [2] [1] 0 0 false false EmptyString iff None false [].
Definition mex_env : env := mkEnv (fun _ => false) (fun _ _ => false) (fun _ => None) (fun _ => None) None 0.
Definition mex_ext : addr := mkAddr false [203; 0; 113; 9].

(* (1) pinned code: when the server-reflexive rules do not match the wildcard address, resolveSrflxAddresses answers
   with the wildcard address itself and it is published as a candidate address *)
Theorem mapped_unspecified_published_refuted :
  exists d, In d (mapped_model false (mex_cfg None) mex_env (fun _ => Some [wild false])) /\ d_pub d = true /\ d_disp d = DIP (wild false).
Proof. eexists. split; [left; reflexivity|]. split; reflexivity. Qed.

(* (2) "sits on an interface and address accepted by the interface/IP filters": the socket is bound to the wildcard
   address whatever the filters say (here: an interface filter that accepts nothing) *)
Theorem mapped_base_ignores_filters_refuted :
  let c := mex_cfg (Some (fun _ => false)) in
  exists d b ps, In d (mapped_model true c mex_env (fun _ => Some [mex_ext])) /\ has_filters c = true /\
                 d_base d = Some (b, ps) /\ is_unspec b = true /\ accepted_addr c [] b = false.
Proof. eexists. eexists. eexists. split; [left; reflexivity|]. repeat split. Qed.

(* ---- the monitor accepts what corresponds to the repaired model (all checks but the filter clause, which the
   gatherer violates by design, and the equality of port and related port, which the correspondence relation
   does not record) *)
Definition sound_checks : list string :=
  ["mapped_type_enabled"; "mapped_base_family_enabled"; "mapped_not_unspecified"; "mapped_own_socket"]%string.

Theorem mapped_monitor_sound_partial c ifs e res pub socks : nts_ok c ->
  corresponds (mapped_model true c e res) pub socks = true ->
  forall n, In n sound_checks -> ~ In n (failed (C18_mapped_checks c ifs pub socks)).
Proof.
  intros Hok Hc n Hn Hf. unfold corresponds in Hc. apply andb_prop in Hc. destruct Hc as [Hc _].
  rewrite forallb_forall in Hc.
  assert (HP : forall o, In o pub -> exists d, In d (mapped_model true c e res) /\ match_cand o d = true /\ sock_seen socks o d = true).
  { intros o Ho. specialize (Hc o Ho). apply existsb_exists in Hc. destruct Hc as [d [Hd H]].
    apply andb_prop in H. destruct H as [H H3]. apply andb_prop in H. destruct H as [_ H2]. exists d. auto. }
  unfold failed, C18_mapped_checks in Hf. apply in_map_iff in Hf. destruct Hf as [[nm b] [En Hin]]. cbn in En. subst nm.
  apply filter_In in Hin. destruct Hin as [Hin Hb]. cbn in Hb. apply negb_true_iff in Hb.
  assert (Hall : forall (P : ocand -> bool), (forall o d, In o pub -> In d (mapped_model true c e res) -> match_cand o d = true -> sock_seen socks o d = true -> P o = true) -> forallb P pub = true).
  { intros P HPd. apply forallb_forall. intros o Ho. destruct (HP o Ho) as [d [Hd [Hm Hs]]]. exact (HPd o d Ho Hd Hm Hs). }
  cbn in Hin.
  repeat (destruct Hin as [E|Hin]; [injection E as <- <-; cbn in Hn|]); try contradiction.
  all: try (destruct Hn as [Hn|[Hn|[Hn|[Hn|[]]]]]; discriminate Hn).
  all: rewrite Hall in Hb; [discriminate Hb|]; intros o d Ho Hd Hm Hs;
       destruct (mapped_sound true c e res d Hok Hd) as [Ht [Hct [Hpub [is6 [ps [a [Eb [Es [Ep [Ed [Hfam [Hlt [Hres Hrange]]]]]]]]]]]]];
       unfold match_cand in Hm; repeat (apply andb_prop in Hm; destruct Hm as [Hm ?]).
  - (* type enabled *) apply Z.eqb_eq in Hm. rewrite Hm, Ht. apply mem_In. exact Hct.
  - (* base family enabled *)
    match goal with H : match_base _ _ = true |- _ => rewrite Eb in H; unfold match_base in H; destruct (o_base o) as [[b p]|]; [|discriminate H];
      apply andb_prop in H; destruct H as [Hab _] end.
    assert (a6 b = is6). { unfold addr_eqb in Hab. apply andb_prop in Hab. destruct Hab as [Hab _]. apply eqb_prop in Hab. exact Hab. }
    subst is6. apply mem_In. exact Hfam.
  - (* not unspecified *)
    match goal with H : disp_eqb _ _ = true |- _ => rewrite Ed in H; unfold disp_eqb in H; destruct (o_disp o) as [a'|]; [|discriminate H] end.
    match goal with H : addr_eqb a' a = true |- _ => apply addr_eqb_eq in H; subst a' end.
    rewrite (mapped_not_unspecified c e res d a Hd Ed). reflexivity.
  - (* own socket *)
    match goal with H : match_base _ _ = true |- _ => rewrite Eb in H; unfold match_base in H; destruct (o_base o) as [[b p]|] eqn:Eob; [|discriminate H];
      apply andb_prop in H; destruct H as [Hab _] end.
    apply addr_eqb_eq in Hab. subst b. unfold sock_seen in Hs. rewrite Es in Hs. unfold sock_port in Hs. rewrite Eob in Hs. exact Hs.
Qed.

(* ---- the UDP-mux host gatherer ----------------------------------------------------------------------------- *)
Lemma dedup_in seen l d : In d (dedup_descs seen l) -> In d l.
Proof.
  revert seen. induction l as [|x t IH]; intros seen H; cbn in *; [exact H|].
  destruct (existsb _ seen); [right; exact (IH _ H)|]. destruct H as [<-|H]; [left; reflexivity|right; exact (IH _ H)].
Qed.

(* the repaired gatherer: every candidate is a host candidate (that type enabled) of an enabled UDP network type, on a
   connection borrowed from the mux (no socket of the agent's own), with the port of the mux's listen address *)
Theorem udpmux_sound c addrs d :
  In d (udpmux_model true c addrs) ->
  d_type d = 1 /\ In 1 (c_ctypes c) /\ In (d_nt d) (eff_nts (c_ntypes c)) /\ d_sock d = None /\ d_base d = None /\
  exists a port, In (a, port) addrs /\ d_port d = PExact port /\ d_disp d = host_disp c a /\ d_nt d = nt_of TUdp (a6 a).
Proof.
  unfold udpmux_model. destruct (mem 1 (c_ctypes c)) eqn:Em; cbn [negb]; [|intros []].
  intros H. apply dedup_in in H. apply in_flat_map in H. destruct H as [[a port] [Hin H]].
  unfold udpmux_one in H. cbn [andb] in H.
  destruct (negb (mem (nt_of TUdp (a6 a)) (eff_nts (c_ntypes c)))) eqn:En; [destruct H|]. destruct H as [<-|[]].
  cbn [d_type d_nt d_sock d_base d_port d_disp]. unfold udpmux_nt. cbn [negb andb].
  split; [reflexivity|]. split; [apply mem_In; exact Em|]. split; [apply mem_In; apply negb_false_iff in En; exact En|].
  split; [reflexivity|]. split; [reflexivity|]. exists a, port. auto.
Qed.

(* the pinned gatherer publishes candidates of a network type that is not enabled: a mux listening on an IPv6 address,
   an agent configured for udp4 only *)
Theorem udpmux_disabled_family_refuted :
  let c := mkCfg [1] [1] 0 0 true false EmptyString None None false [] in
  let v6 := mkAddr true [0;0;0;0;0;0;0;0;0;0;0;0;0;0;0;1] in
  exists d, In d (udpmux_model false c [(v6, 7000)]) /\ d_pub d = true /\ ~ In (d_nt d) (eff_nts (c_ntypes c)).
Proof. eexists. split; [left; reflexivity|]. split; [reflexivity|]. cbn. intros [H|[]]. discriminate H. Qed.
