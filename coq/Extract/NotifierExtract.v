(* Extraction of the C11 acceptor, monitors and the gather-cycle spec. ExtrOcamlBasic only. *)
From Coq Require Import Extraction ExtrOcamlBasic.
From Ice Require Import Model.ConvTypes Model.PrioSpec Model.Notifier Model.GatherCycle.
Extraction "model.ml" conv_witness explains candidate run init C11_checks
  grun g_init gwf C11_gather_checks completed_cycles g_cycgen g_cyc failed all_ok.
