(* Extraction of the agent core model, its observation projection and the monitors. *)
From Coq Require Import Extraction ExtrOcamlBasic ZArith String.
From Ice Require Import Model.ConvTypes Model.PrioSpec Model.AgentTypes Model.AgentCore Model.AgentObs Model.AgentMonitors Model.PairMonitor Model.TwoAgents Model.TwoAgentsData.
Extraction "model.ml" conv_witness init step canon_outs snap_of_state monitor C01_checks sys_init sys_step dsys_init dsys_step failed all_ok.
