(* Extraction of the C10 acceptor (explains) and monitor. ExtrOcamlBasic only. *)
From Coq Require Import Extraction ExtrOcamlBasic.
From Ice Require Import Model.ConvTypes Model.PrioSpec Model.TaskLoop Model.LoopApi Model.ApiSeq Gen.LoopDiscipline.
Extraction "model.ml" conv_witness explains run observe init C10_checks api_lookup api_predict_returns C10_api_checks C10_api2_checks aserial api2_outcomes failed all_ok.
