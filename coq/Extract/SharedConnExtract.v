(* Extraction of the C13 shared-handle model + monitor. ExtrOcamlBasic only. *)
From Coq Require Import Extraction ExtrOcamlBasic ZArith String.
From Ice Require Import Model.ConvTypes Model.PrioSpec Model.SharedConn.
Extraction "model.ml" conv_witness sc_run finit C13_sc_checks failed all_ok.
