(* Extraction of the C14 framing model + monitors. ExtrOcamlBasic only; nat/N/Z/ascii stay Coq datatypes. *)
From Coq Require Import Extraction ExtrOcamlBasic ZArith String.
From Ice Require Import Model.ConvTypes Model.PrioSpec Model.Framing.
Extraction "model.ml" conv_witness mtu hdr_len current mkVariant mkStream stream_len list_max content
  read_packet read_all read_fuel parse_all frame write_streaming_packet pc_write_all pc_read_all pc_conn_closed_after_error
  act_read_all act_reports_end act_write_all
  C14_read_checks C14_write_checks C14_pc_read_checks C14_pc_write_checks C14_pipe_checks
  C14_act_read_checks C14_act_write_checks failed all_ok.
