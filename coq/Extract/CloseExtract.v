(* Extraction of the C08 monitor, the agent-core tie for later calls, and (later) the acceptor of
   the close-protocol model.  ExtrOcamlBasic only. *)
From Coq Require Import Extraction ExtrOcamlBasic ZArith String.
From Ice Require Import Model.ConvTypes Model.PrioSpec Model.AgentTypes Model.AgentCore Model.CloseMonitor.
Extraction "model.ml" conv_witness C08_checks C08_monitor tie_predict failed all_ok.
