(* Extraction of the C16 candidate model + monitors. ExtrOcamlBasic only. *)
From Coq Require Import Extraction ExtrOcamlBasic ZArith String.
From Ice Require Import Model.ConvTypes Model.PrioSpec Model.Crc32 Model.Foundation Model.CandVariant Model.Cand.
Extraction "model.ml" conv_witness crc32 rt_observe pair_observe in_domain C16_rt_checks C16_pair_checks failed all_ok.
