(* Extraction of the C15 model + monitor. ExtrOcamlBasic only; Z/nat/string stay Coq datatypes. *)
From Coq Require Import Extraction ExtrOcamlBasic ZArith String.
From Ice Require Import Model.ConvTypes Model.PrioSpec Model.TcpMux Model.TcpMuxSpec.
Extraction "model.ml" conv_witness init step run settle deliverable hold_of raddr_of phase_routed classify C15_checks C15_monitor failed all_ok.
