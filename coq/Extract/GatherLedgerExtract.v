(* Extraction of the C09 model + monitor. ExtrOcamlBasic only. *)
From Coq Require Import Extraction ExtrOcamlBasic ZArith String List.
From Ice Require Import Model.ConvTypes Model.PrioSpec Model.GatherLedger.
Extraction "model.ml" conv_witness failed all_ok run_script led_init C09_checks mkVariant.
