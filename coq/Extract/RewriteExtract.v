(* Extraction of the C19 model + monitors. ExtrOcamlBasic only; Z/string stay Coq datatypes. *)
From Coq Require Import Extraction ExtrOcamlBasic ZArith String.
From Ice Require Import Model.ConvTypes Model.PrioSpec Model.Rewrite Gen.RewriteFns.
Extraction "model.ml" conv_witness compile find_external_ips lookup host_addresses udpmux_addresses
  resolve_srflx resolve_relay has_candidate_type should_replace sanitize_rules legacy_config_rules
  spec_lookup cidr_only_vs_global cidr_cross_rule
  C19_lookup_checks C19_apply_checks C19_validation_checks C19_legacy_checks C19_option_checks
  catchAllSpecificity defaultAddressRewriteMode hasMappings isFamilyAllowed failed all_ok.
