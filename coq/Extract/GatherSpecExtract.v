(* Extraction of the C18 model + monitors. ExtrOcamlBasic only; Z/N/nat/string stay Coq datatypes. *)
From Coq Require Import Extraction ExtrOcamlBasic ZArith String List.
From Ice Require Import Model.ConvTypes Model.PrioSpec Model.GatherSpec Model.GatherMapped Model.GatherStateCycle.
Extraction "model.ml" conv_witness failed all_ok
  supported_v6_partial parse_ip local_addrs local_ifaces listen_in_range look_of
  gather_model mapped_model C18_mapped_checks udpmux_model C18_udpmux_checks corresponds C18_gather_checks C18_finish_checks mkCfg mkIface mkEnv mkVariant mkOcand mkOsock
  accept_init accept_op predict_op C18_cycle_checks.
