(* Extraction of the C12 model (sequential UDP mux core) + monitor. ExtrOcamlBasic only. *)
From Coq Require Import Extraction ExtrOcamlBasic ZArith NArith String List.
From Ice Require Import Model.ConvTypes Model.PrioSpec Model.UdpMux.
Extraction "model.ml" conv_witness init step snap_of canon ufrag_of route C12_checks C12_race_checks failed all_ok.
