(* Extraction of the translated decision functions the agent-core model calls (suite "decide"): each is compared with
   the Go function it was translated from on boundary values.  ExtrOcamlBasic only; Z stays a Coq datatype. *)
From Coq Require Import Extraction ExtrOcamlBasic ZArith String.
From Ice Require Import Model.ConvTypes Gen.Lifecycle.
Extraction "model.ml" conv_witness shouldAcceptNomination shouldSwitchSelectedPair needsToCheckPriorityOnNominated
  connectionStateForDisconnection initialCheckingTimeout canHandleInbound responseSymmetric CandidatePair_equal isNominatable.
