(* Extraction of the C16 attribute-codec model + monitor. ExtrOcamlBasic only. *)
From Coq Require Import Extraction ExtrOcamlBasic ZArith String.
From Ice Require Import Model.ConvTypes Model.PrioSpec Model.CandVariant Model.Attrs.
Extraction "model.ml" conv_witness attr_observe C16_attr_checks failed all_ok.
