(* Extraction of the C13 write-abort acceptor + monitor. ExtrOcamlBasic only. *)
From Coq Require Import Extraction ExtrOcamlBasic ZArith String.
From Ice Require Import Model.ConvTypes Model.PrioSpec Model.WriteAbort.
Extraction "model.ml" conv_witness wa_accept C13_wa_checks failed all_ok.
