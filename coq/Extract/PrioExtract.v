(* Extraction of the C17 model + monitors. ExtrOcamlBasic only; Z/N/string stay Coq datatypes. *)
From Coq Require Import Extraction ExtrOcamlBasic ZArith String.
From Ice Require Import Model.ConvTypes Model.PrioSpec Model.PrioModel Model.Foundation Gen.Prio Gen.Names.
Extraction "model.ml" conv_witness TypePreference LocalPreference Priority relayProtocolPreference
  candidate_priority PairPriority foundation C17_cand_checks C17_pair_checks failed all_ok.
