(* Finding for C13 (not part of the default build; compile with
     coqc -q -R /verif/coq Ice /verif/coq/Findings/F_C13_stale_clearer.v ).

   The faithful model of udp_mux.go (variant handover = false: the code as it is) REFUTES "once the in-flight writes have returned, the
   socket's write deadline is cleared" as soon as one SetWriteDeadline(time.Now()) call may fail
   (the property quantifies over that fault): 3 writers, 3 aborts, the first arming fails.

   The waiter of clearWriteDeadlineAfterAbort (writer 0) belongs to the abort whose arming failed;
   that abort clears the blocked bit underneath it (clearWriteAbortState), the waiter does not
   observe it, later sees blocked+deadline of the SECOND abort, clears the socket deadline and
   finally Stores 0 while the THIRD abort owns the blocked bit: that abort then arms the deadline,
   finds blocked gone and returns; writer 2 finds count 0 and returns.  Quiescent, writeState = 0,
   deadline armed, nobody left to clear it: every later write times out. *)
From Coq Require Import Bool List Arith.
From Ice Require Import Model.WriteAbort.
Import ListNotations.

(* one step forward; the state is kept as a record literal (the set_* updates are reduced away) *)
Tactic Notation "nxt" hyp(R) uconstr(c) :=
  eapply reach_step in R;
  [ | eapply c; cbv; try reflexivity; try discriminate; try (left; reflexivity) ];
  cbv [set_w set_a set_ws set_armed set_fl set_own set_clr bump_armfails set_clrfailed
       ws armed wpcs apcs fl own clr armfails clrfailed init] in R.

Theorem C13_quiescent_clean_refuted :
  exists s, reach false s /\ quiescent s /\ ws s = w0 /\ armed s = true /\ clrfailed s = false /\ armfails s = 1.
Proof.
  pose proof (reach_init false) as R.
  (* writer 0 enters and leaves the socket *)
  nxt R (w_call _ _ 0).
  nxt R (w_start_load _ _ 0).
  nxt R (w_start_cas_ok _ _ 0).
  nxt R (w_sock_in _ _ 0).
  nxt R (w_sock_ok _ _ 0).
  nxt R (w_call _ _ 1).
  nxt R (w_call _ _ 2).
  (* abort 0 wins the blocked bit *)
  nxt R (a_call _ _ 0).
  nxt R (a_load _ _ 0).
  nxt R (a_cas_ok _ _ 0).
  (* writer 0 is the last writer: count 1 -> 0 under blocked, waits for the deadline bit *)
  nxt R (w_fin_load_last _ _ 0).
  nxt R (w_fin_cas_last_ok _ _ 0).
  (* SetWriteDeadline(now) FAILS; clearWriteAbortState clears blocked *)
  nxt R (a_arm_fail _ _ 0).
  nxt R (a_undo_load _ _ 0).
  nxt R (a_undo_cas_ok _ _ 0).
  (* second generation: writer 1, abort 1 (arming succeeds) *)
  nxt R (w_start_load _ _ 1).
  nxt R (w_start_cas_ok _ _ 1).
  nxt R (w_sock_in _ _ 1).
  nxt R (w_sock_ok _ _ 1).
  nxt R (a_call _ _ 1).
  nxt R (a_load _ _ 1).
  nxt R (a_cas_ok _ _ 1).
  nxt R (w_fin_load_last _ _ 1).
  nxt R (w_fin_cas_last_ok _ _ 1).
  nxt R (a_arm_ok _ _ 1).
  nxt R (a_arm_load _ _ 1).
  nxt R (a_arm_cas_ok _ _ 1).
  (* BOTH waiters (the stale writer 0 and the genuine writer 1) see blocked+deadline *)
  nxt R (w_clr_go _ _ 0).
  nxt R (w_clr_set_ok _ _ 0).
  nxt R (w_clr_go _ _ 1).
  nxt R (w_clr_store _ _ 0).
  nxt R (w_clr_set_ok _ _ 1).
  (* third generation: writer 2, abort 2 wins blocked *)
  nxt R (w_start_load _ _ 2).
  nxt R (w_start_cas_ok _ _ 2).
  nxt R (w_sock_in _ _ 2).
  nxt R (w_sock_ok _ _ 2).
  nxt R (a_call _ _ 2).
  nxt R (a_load _ _ 2).
  nxt R (a_cas_ok _ _ 2).
  (* the late Store(0) of writer 1 wipes blocked and the count *)
  nxt R (w_clr_store _ _ 1).
  nxt R (w_fin_zero _ _ 2).
  (* abort 2 arms the deadline, finds blocked cleared, returns *)
  nxt R (a_arm_ok _ _ 2).
  nxt R (a_arm_ret _ _ 2).
  (* everybody returns *)
  nxt R (w_ret _ _ 0).
  nxt R (w_ret _ _ 1).
  nxt R (w_ret _ _ 2).
  nxt R (a_ret _ _ 0).
  nxt R (a_ret _ _ 1).
  nxt R (a_ret _ _ 2).
  eexists. split; [exact R|]. repeat split.
  - intros i. destruct i as [|[|[|i]]]; reflexivity.
  - intros j. destruct j as [|[|[|j]]]; reflexivity.
Qed.
Print Assumptions C13_quiescent_clean_refuted.

(* the count field is not exact either: after writer 0's stale Store(0) in the second generation
   writer 1 is still between its increment and its decrement while the count is 0 *)
Theorem C13_count_exact_refuted :
  exists s i, reach false s /\ inflight (wpcs s i) = true /\ cnt (ws s) = 0.
Proof.
  pose proof (reach_init false) as R.
  nxt R (w_call _ _ 0).
  nxt R (w_start_load _ _ 0).
  nxt R (w_start_cas_ok _ _ 0).
  nxt R (w_sock_in _ _ 0).
  nxt R (w_sock_ok _ _ 0).
  nxt R (w_call _ _ 1).
  nxt R (a_call _ _ 0).
  nxt R (a_load _ _ 0).
  nxt R (a_cas_ok _ _ 0).
  nxt R (w_fin_load_last _ _ 0).
  nxt R (w_fin_cas_last_ok _ _ 0).
  nxt R (a_arm_fail _ _ 0).
  nxt R (a_undo_load _ _ 0).
  nxt R (a_undo_cas_ok _ _ 0).
  nxt R (w_start_load _ _ 1).
  nxt R (w_start_cas_ok _ _ 1).
  nxt R (w_sock_in _ _ 1).
  nxt R (a_call _ _ 1).
  nxt R (a_load _ _ 1).
  nxt R (a_cas_ok _ _ 1).
  nxt R (a_arm_ok _ _ 1).
  nxt R (a_arm_load _ _ 1).
  nxt R (a_arm_cas_ok _ _ 1).
  nxt R (w_clr_go _ _ 0).
  nxt R (w_clr_set_ok _ _ 0).
  nxt R (w_clr_store _ _ 0).
  eexists. exists 1. split; [exact R|]. split; reflexivity.
Qed.
Print Assumptions C13_count_exact_refuted.
