(* C12 finding: with the pinned semantics of RemoveConnByUfrag (remove_closes = false) the
   unconditional "after it is removed it receives nothing and its address bindings are gone" is
   FALSE in the faithful model.  Witnesses by vm_compute.  Not part of the default build; allowed
   to stop compiling when the defect is repaired in the model's default. *)
From Coq Require Import ZArith NArith Bool String List.
From Ice Require Import Model.PrioSpec Model.UdpMux Proofs.UdpMuxProofs.
Import ListNotations.

Definition pinned := mkCfg true false.
Definition X := mkAddr false 167772417 0 5000.

(* GetConn uA; RemoveConnByUfrag uA; conn.WriteTo(X); inbound from X *)
Definition history := [OGetConn "uA" false true; ORemove "uA"; OWrite 0 (WAddr X) 3].

Theorem C12_after_remove_refuted :
  exists s u c ops,
    reach pinned s /\ reg_under s u c /\
    let s' := run_from pinned (fst (step pinned s (ORemove u))) ops in
    amap s' X = Some c /\ recipient s' X KRaw c = true.
Proof.
  exists (run pinned [OGetConn "uA" false true]), "uA"%string, 0, [OWrite 0 (WAddr X) 3].
  split; [apply reach_run|]. vm_compute. repeat split; auto.
Qed.

(* ... and it stays bound after the removed connection is closed: the watcher's
   RemoveConnByUfrag no longer finds the connection, so nobody deletes the binding; traffic from X
   is then swallowed (the owner is closed) instead of being routed by ufrag *)
Theorem C12_after_close_binding_refuted :
  let s := run pinned (history ++ [OCloseH 0]) in
  c_closed (conns s 0) = true /\ mclosed s = false /\ amap s X = Some 0.
Proof. vm_compute. repeat split; auto. Qed.

(* the monitor rejects the model's own run of the pinned semantics on this history *)
Theorem C12_monitor_rejects_pinned :
  failed (C12_checks (observe pinned init (history ++ [OInbound X KRaw "p"]))) <> [].
Proof. vm_compute. discriminate. Qed.

(* with the repair the same history is accepted *)
Theorem C12_monitor_accepts_repaired :
  C12_monitor (observe (mkCfg true true) init (history ++ [OInbound X KRaw "p"; ORead 0 9000])) = true.
Proof. vm_compute. reflexivity. Qed.
