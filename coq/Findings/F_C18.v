(* C18: statements the faithful (pinned) model refutes.  Not part of the default build; allowed to
   stop compiling when a defect gets fixed in the model's pinned variant. *)
From Coq Require Import ZArith Bool String List.
From Ice Require Import Model.PrioSpec Model.GatherSpec Model.GatherStateCycle Proofs.GatherSpecProofs Proofs.GatherStateCycleProofs.
Import ListNotations.
Local Open Scope Z_scope.

Definition eth0 : list iface :=
  [mkIface "eth0" true false [[10;0;0;5]; [32;1;13;184;0;0;0;0;0;0;0;0;0;0;0;5]]].
Definition env0 : env := mkEnv (fun _ => false) (fun _ _ => false) (fun _ => Some (mkAddr false [198;51;100;1]))
                               (fun _ => None) (Some (mkAddr false [192;0;2;50])) 0.

(* empty NetworkTypes ("all"): an eligible address with a listener yields no host candidate *)
Theorem empty_network_types_refuted :
  exists c ifs e a t, In 1 (c_ctypes c) /\ In a (all_addrs ifs) /\ eligible c ifs a = true /\
    In (nt_of t (a6 a)) (eff_nts (c_ntypes c)) /\ has_listener c e a t = true /\
    gather_model pinned c ifs e = [].
Proof.
  exists (mkCfg [1] [] 0 0 false false "x.local" None None false []), eth0, env0, (mkAddr false [10;0;0;5]), TUdp.
  vm_compute. intuition.
Qed.

(* NetworkTypes [udp4; tcp6]: a udp6 host candidate is published *)
Theorem cross_family_refuted :
  exists c ifs e d, In d (gather_model pinned c ifs e) /\ d_pub d = true /\ ~ In (d_nt d) (eff_nts (c_ntypes c)).
Proof.
  exists (mkCfg [1] [1; 4] 0 0 false false "x.local" None None false []), eth0, env0.
  eexists. split; [vm_compute; right; left; reflexivity|]. vm_compute. split; [reflexivity|]. intuition discriminate.
Qed.

(* NetworkTypes [udp6], relay over a udp4 TURN transport: a udp4 relay candidate is published *)
Theorem relay_family_refuted :
  exists c ifs e d, In d (gather_model pinned c ifs e) /\ d_pub d = true /\ ~ In (d_nt d) (eff_nts (c_ntypes c)).
Proof.
  exists (mkCfg [4] [2] 0 0 false false "x.local" None None false [2]), eth0, env0.
  eexists. split; [vm_compute; left; reflexivity|]. vm_compute. split; [reflexivity|]. intuition discriminate.
Qed.

(* pinned addCandidate (no re-check on the loop): a candidate of the cancelled cycle is published
   into the new generation *)
Theorem stale_candidate_refuted :
  exists s, reach false s /\ exists k gen g, In (k, gen) (y_pubs s) /\ nth_error (y_gors s) k = Some g /\ g_gen g <> gen.
Proof.
  destruct (run_actions false cyc_init [AOnCandidate; AGather; ASetGathering 0; AAddCheck 0; ARestart; AAddRun 0]) as [s|] eqn:E;
    [|vm_compute in E; discriminate].
  exists s. split; [eapply run_actions_reach; [apply reach_init | exact E]|].
  vm_compute in E. inversion E; subst. exists 0%nat, 1%nat. eexists. vm_compute. intuition discriminate.
Qed.
