(* Finding (fixed in /repo by commit "re-check the gathering context inside the addCandidate task"):
   with the code BEFORE that fix (recheck = false) the faithful select semantics lets a stale
   addCandidate of a cycle cancelled by Restart win the select, and the candidate is delivered
   carrying the NEW generation's ufrag.  Witness history; not part of the default build. *)
From Coq Require Import Arith Bool List.
Import ListNotations.
From Ice Require Import Model.PrioSpec Model.GatherCycle Proofs.GatherCycleProofs.

(* the earlier code (no re-check inside the task): a history on which the property fails *)
Definition stale_witness : list gop := [GStart; GAdd 0; GTrap 1 true; GStart; GAdd 2; GFinish].

Lemma C11_candidate_carries_cycle_ufrag_refuted_without_recheck :
  gwf g_init stale_witness = true /\ gordered g_init stale_witness = true /\
  let s := fst (fst (grun false g_init stale_witness)) in
  In (GCand 1 1 1) (snd (grun false g_init stale_witness)) /\ g_cycgen s 1 = 0.
Proof. vm_compute. repeat split; auto. Qed.
