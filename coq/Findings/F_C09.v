(* C09: the statement the faithful (pinned) model refutes. Not part of the default build. *)
From Coq Require Import ZArith Bool String List.
From Ice Require Import Model.PrioSpec Model.GatherLedger Proofs.GatherLedgerProofs.
Import ListNotations.

(* F_C09_srflx_cancel_after_reply: gatherCandidatesSrflx does not close its socket when
   addCandidate fails after the STUN reply arrived.  Schedules: Restart between the reply and the
   ctx check; Restart between the ctx check and loop.Run's select (which takes ctx.Done). *)
Theorem srflx_cancel_after_reply_refuted :
  ~ (forall s, reach pinned s -> quiescent s = true -> l_close_done s = true ->
       forall id r, nth_error (l_res s) id = Some r -> r_open r = false).
Proof.
  intros H. destruct srflx_leak_witness as [s [Hr [Hq [Hd Ho]]]].
  unfold open_count in Ho. destruct (filter r_open (l_res s)) as [|r l] eqn:E; [discriminate|].
  assert (Hin : In r (filter r_open (l_res s))) by (rewrite E; left; reflexivity).
  apply filter_In in Hin. destruct Hin as [Hin Hopen]. apply In_nth_error in Hin. destruct Hin as [id Hn].
  rewrite (H s Hr Hq Hd id r Hn) in Hopen. discriminate.
Qed.

Theorem srflx_abort_after_check_refuted :
  exists s, reach pinned s /\ quiescent s = true /\ l_close_done s = true /\ open_count s = 1.
Proof.
  destruct (run_actions pinned led_init
              [LSpawn KSrflx 0 1; LAcquire 0 true; LStep 0 true; LAddCheck 0; LRestart; LAddAbort 0; LClose; LCloseDone])
    as [s|] eqn:E; [|vm_compute in E; discriminate].
  exists s. split; [eapply run_actions_reach; [apply reach_init | exact E]|].
  vm_compute in E. inversion E; subst. vm_compute. auto.
Qed.
