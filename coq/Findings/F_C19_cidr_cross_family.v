(* C19: "IPv4 and IPv6 mappings never cross families unless pinned by Local" does not hold for a
   catch-all with a CIDR: the CIDR decides the family, so an IPv6 External under an IPv4 CIDR is
   advertised for every IPv4 local address of the CIDR, without Local.  The rule is the one of
   TestNewExternalIPMapper/"cidr family mismatch with external" (which pins this behaviour).
   Not part of the default build. *)
From Coq Require Import ZArith Bool String List.
From Ice Require Import Model.PrioSpec Model.Rewrite Proofs.RewriteProofs.
Import ListNotations.
Local Open Scope Z_scope.

Definition v6ext : addr := (false, 42540766411282592856903984951653826561).  (* 2001:db8::1 *)
Definition cross_rules : list rule :=
  [ mkRule [(1, SGood v6ext)] SEmpty "" (CGood (true, 167772160, 24)) 1 0 [] ].

Theorem C19_families_refuted :
  exists rs m ty loc iface ips matched mode e,
    compile rs = COk m /\ lookup m ty loc iface = (ips, matched, mode) /\ In e ips /\ fst e <> fst loc /\
    ~ (exists r, In r rs /\ r_local r = SGood loc).
Proof.
  exists cross_rules. eexists. exists 1, (true, 167772165), ""%string. do 3 eexists. exists v6ext.
  split; [vm_compute; reflexivity|]. split; [vm_compute; reflexivity|].
  split; [left; reflexivity|]. split; [simpl; discriminate|].
  intros [r [[<- | []] Hl]]. discriminate Hl.
Qed.

Example witness_is_cidr_cross : cidr_cross_rule (hd (mkRule [] SEmpty "" CNone 0 0 []) cross_rules) = true.
Proof. vm_compute. reflexivity. Qed.
