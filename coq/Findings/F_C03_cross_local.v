(* C03: "every pair that becomes valid has completed a connectivity check OF ITS OWN" is refuted by the
   faithful model (and by pion/ice: known finding C03, replay findings/known/C03-cross-local-response.json):
   handleInboundBindingSuccess matches a success response against the outstanding transactions by
   transaction ID and destination address only; the local candidate the response arrives on is not
   compared with the one the request was sent from.  With two local candidates paired with one remote,
   the answer to the check sent from local 1, delivered on local 2, validates the pair of local 2, whose
   own check (another transaction) was never answered.  (Candidates served by one UDP mux share a
   socket, so the code cannot tell the two apart; the check is not repairable by a small patch.)
   Not part of the default build. *)
From Coq Require Import ZArith Bool List.
From Ice Require Import Model.AgentTypes Model.AgentCore Gen.Consts.
Import ListNotations.
Local Open Scope Z_scope.

Definition cfg := mkConfig false 5 7 5000000000 false 25000000000 0 0 0 0 0 [] false false 1.
Definition l1 := mkCand 1 1 1 (mkAddr false 167772161 5000) 0 2130706431 1 None.
Definition l2 := mkCand 2 1 1 (mkAddr false 167772162 5001) 0 2130706175 1 None.
Definition ra := mkAddr false 3232235777 6000.
Definition r := mkCand 101 1 1 ra 0 2130706431 1 None.
Definition ops := [AddLocal l1; AddLocal l2; AddRemote r; Start true 3 4; Tick].
Definition resp tx := mkMsg 2 1 tx None (Some 4) false None None None None None.

(* (local handle, transaction) of every Binding request written *)
Definition requests (tr : list (list out)) : list (Z * Z) :=
  flat_map (fun os => flat_map (fun o => match o with OSend h _ m => if m_class m =? 0 then [(h, m_tx m)] else [] | _ => [] end) os) tr.
Definition succeeded_on (s : state) (h : Z) : bool :=
  existsb (fun p => (c_h (p_loc p) =? h) && (p_state p =? CandidatePairStateSucceeded)) (s_checklist s).

Theorem C03_check_of_its_own_refuted :
  exists cfg ops lh src m,
    let '(s, tr) := run cfg 1 2 ops in
    let '(s', _) := step cfg s (InStun lh src m) in
    (* before: no valid pair on local lh; the transaction answered was never sent from lh *)
    succeeded_on s lh = false /\
    existsb (fun q => (fst q =? lh) && (snd q =? m_tx m)) (requests tr) = false /\
    (* after: a pair of local lh is valid *)
    succeeded_on s' lh = true.
Proof. exists cfg, ops, 2, ra, (resp 1). vm_compute. repeat split; reflexivity. Qed.
