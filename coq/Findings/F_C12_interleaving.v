(* C12, schedules: a small interleaving model of the lock-delimited sections of
     udpMuxedConn.WriteTo  (isClosed check | containsAddress under c.mu | append under c.mu | registerConnForAddress
                            under addressMapMu, incl. existing.removeAddress)
     UDPMuxDefault.RemoveConnByUfrag (delete from the ufrag maps under m.mu | [close, repaired code] |
                            delete the connection's addresses from addressMap under addressMapMu)
   Each section is ONE atomic step; threads are a list of program counters (any interleaving = any
   order of the enabled steps).  This file only exhibits schedules (witnesses by vm_compute); it proves
   no safety theorem and is NOT tied to the code by a correspondence run: schedule 1 was reproduced
   on the real code by the suite's "race" cases (8 stale bindings in 30 000 trials with the first
   hunk of the proposed repair only, 0 in 150 000 with both hunks); schedule 2 is by reading only.
   Not part of the default build. *)
From Coq Require Import Bool List Arith.
Import ListNotations.

Record st := mk {
  closed : nat -> bool;            (* udpMuxedConn.closed *)
  registered : nat -> bool;        (* the connection is in connsIPv4/connsIPv6 *)
  addrs : nat -> list nat;         (* udpMuxedConn.addresses (addresses are numbers here) *)
  amap : nat -> option nat }.      (* addressMap *)

Inductive pc :=
| WStart (c a : nat)   (* WriteTo called *)
| WChecked (c a : nat) (* isClosed() returned false *)
| WNew (c a : nat)     (* containsAddress() returned false (its own c.mu section) *)
| WAppended (c a : nat)(* addAddress appended the address (another c.mu section) *)
| RStart (c : nat)     (* RemoveConnByUfrag called for c's ufrag *)
| RUnmapped (c : nat)  (* deleted from the ufrag maps *)
| RClosed (c : nat)    (* connection closed (repaired code), or skipped (pinned code) *)
| Done.

Definition upd {A} (f : nat -> A) k v := fun i => if Nat.eqb i k then v else f i.

(* [close_on_remove]: first hunk of the repair; [check_under_lock]: second hunk *)
Definition step (close_on_remove check_under_lock : bool) (s : st) (p : pc) : st * pc :=
  match p with
  | WStart c a => if closed s c then (s, Done) else (s, WChecked c a)
  | WChecked c a => if existsb (Nat.eqb a) (addrs s c) then (s, Done) else (s, WNew c a)
  | WNew c a => (mk (closed s) (registered s) (upd (addrs s) c (addrs s c ++ [a])) (amap s), WAppended c a)
  | WAppended c a =>
    if check_under_lock && closed s c then (s, Done)
    else
      let ad := match amap s a with
                | Some e => upd (addrs s) e (filter (fun x => negb (Nat.eqb x a)) (addrs s e))
                | None => addrs s
                end in
      (mk (closed s) (registered s) ad (upd (amap s) a (Some c)), Done)
  | RStart c => if registered s c then (mk (closed s) (upd (registered s) c false) (addrs s) (amap s), RUnmapped c) else (s, Done)
  | RUnmapped c =>
    ((if close_on_remove then mk (upd (closed s) c true) (registered s) (addrs s) (amap s) else s), RClosed c)
  | RClosed c =>
    (mk (closed s) (registered s) (addrs s)
        (fun a => if existsb (Nat.eqb a) (addrs s c) then None else amap s a), Done)
  | Done => (s, Done)
  end.

(* a schedule = the list of thread indices to step, in order *)
Fixpoint run (f1 f2 : bool) (s : st) (ths : list pc) (sched : list nat) : st * list pc :=
  match sched with
  | [] => (s, ths)
  | t :: r =>
    let (s', p') := step f1 f2 s (nth t ths Done) in
    run f1 f2 s' (map (fun i => if Nat.eqb i t then p' else nth i ths Done) (seq 0 (length ths))) r
  end.

Definition init : st := mk (fun _ => false) (fun c => Nat.eqb c 0 || Nat.eqb c 1) (fun _ => []) (fun _ => None).
Definition all_done (ths : list pc) : bool := forallb (fun p => match p with Done => true | _ => false end) ths.

(* Schedule 1 (first hunk only): the writer passes isClosed and appends; RemoveConnByUfrag runs to
   completion; the writer then binds.  Everybody is done, connection 0 is closed and unregistered, and
   owns address 7 for ever. *)
Theorem race_write_remove_with_first_hunk_only :
  let '(s, ths) := run true false init [WStart 0 7; RStart 0] [0; 0; 0; 1; 1; 1; 0] in
  all_done ths = true /\ closed s 0 = true /\ registered s 0 = false /\ amap s 7 = Some 0.
Proof. vm_compute. repeat split; reflexivity. Qed.

(* the same schedule with both hunks leaves nothing behind *)
Theorem race_write_remove_with_both_hunks :
  let '(s, ths) := run true true init [WStart 0 7; RStart 0] [0; 0; 0; 1; 1; 1; 0] in
  all_done ths = true /\ amap s 7 = None.
Proof. vm_compute. repeat split; reflexivity. Qed.

(* Schedule 2 (by reading; both hunks do not help): two concurrent writes of connection 0 to the same
   new address both pass containsAddress and both append; one binds; connection 1 takes the address
   over (removeAddress deletes BOTH copies from connection 0's list); the second write of connection 0
   binds again.  addressMap[7] = 0 although 7 is not in connection 0's address list, so a later
   RemoveConnByUfrag of connection 0 does not delete the binding. *)
Theorem race_duplicate_write_takeover :
  let '(s, ths) := run true true init [WStart 0 7; WStart 0 7; WStart 1 7; RStart 0]
                       [0; 1; 0; 1; 0; 1; 0; 2; 2; 2; 2; 1; 3; 3; 3] in
  all_done ths = true /\ closed s 0 = true /\ registered s 0 = false /\ amap s 7 = Some 0.
Proof. vm_compute. repeat split; reflexivity. Qed.
