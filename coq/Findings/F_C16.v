(* C16: statements the faithful model of the PINNED code refutes (witnesses by vm_compute).
   Each corresponds to a monitor failure the harness demonstrates on the real code
   (the files findings/proposed/C16-...).  This file is not part of the default build and is allowed to
   stop compiling when a defect is repaired (flag flipped in Model/CandVariant.v). *)
From Coq Require Import ZArith NArith Bool String List.
From Ice Require Import Model.Wrap Model.PrioSpec Model.Crc32 Model.Foundation Model.CandVariant Model.Cand Model.Attrs.
Import ListNotations.
Local Open Scope Z_scope.
Local Open Scope string_scope.

Definition pa (s : string) : option ipinfo := Some {| ip_is4 := true; ip_key := s |}.
Definition cfg ty nw comp prio tcp ra rp proto : config :=
  {| g_type := ty; g_network := nw; g_address := "10.0.0.1"; g_port := 5000; g_comp := comp; g_prio := prio;
     g_found := ""; g_tcp := tcp; g_reladdr := ra; g_relport := rp; g_relayproto := proto |}.

(* the claims of C16, as decidable tests on one source *)
Definition deep_reflexive (s : source) : bool :=
  match build pa s with Ok c => deep_equal c c | Err _ => true end.
Definition roundtrip_equal (s : source) : bool :=
  match build pa s with
  | Ok c => match unmarshal pa (marshal crc32 c) with Ok c' => equal c c' && equal c' c | Err _ => false end
  | Err _ => true
  end.
Definition roundtrip_priority (s : source) : bool :=
  match build pa s with
  | Ok c => match unmarshal pa (marshal crc32 c) with Ok c' => (priority c =? priority c')%Z | Err _ => false end
  | Err _ => true
  end.
Definition built (s : source) : bool := match build pa s with Ok _ => true | Err _ => false end.

(* 1. DeepEqual is not reflexive: a TCP host candidate with a tcptype (in the domain of the law) *)
Definition s1 := SrcCtor (cfg 1 "tcp" 1 0 1 "" 0 "") [].
Theorem F_C16_deep_refl_refuted : in_domain s1 = true /\ built s1 = true /\ deep_reflexive s1 = false.
Proof. repeat split; vm_compute; reflexivity. Qed.

(* 2. a related address with port 0 is dropped by Marshal: the parsed candidate is not Equal *)
Definition s2 := SrcCtor (cfg 2 "udp" 1 0 0 "0.0.0.0" 0 "") [].
Theorem F_C16_roundtrip_rport0_refuted : in_domain s2 = true /\ built s2 = true /\ roundtrip_equal s2 = false.
Proof. repeat split; vm_compute; reflexivity. Qed.

(* 3. the one candidate whose Priority() is 0 comes back with another priority (768) *)
Definition s3 := SrcCtor (cfg 4 "udp" 256 0 0 "10.0.0.2" 7 "tls") [].
Theorem F_C16_roundtrip_priority0_refuted :
  in_domain s3 = true /\ built s3 = true /\ roundtrip_equal s3 = true /\ roundtrip_priority s3 = false.
Proof. repeat split; vm_compute; reflexivity. Qed.

(* 4. accepted text whose re-marshalled form is rejected: an empty extension key becomes the first
      printed extension (the tcptype before it is dropped for a non-host candidate) *)
Definition s4 := SrcText "1 1 udp 1 1.2.3.4 5 typ srflx tcptype active  v".
Theorem F_C16_reparse_empty_key_refuted : built s4 = true /\ roundtrip_equal s4 = false.
Proof. split; vm_compute; reflexivity. Qed.

(* 5. ... an extension named raddr becomes the first printed token after the type (host
      candidates accept and drop raddr/rport) *)
Definition s5 := SrcText "1 1 udp 1 1.2.3.4 5 typ host raddr 9.9.9.9 rport 9 raddr x".
Theorem F_C16_reparse_raddr_key_refuted : built s5 = true /\ roundtrip_equal s5 = false.
Proof. split; vm_compute; reflexivity. Qed.

(* 6. accepted text with an empty raddr value and a port: dropped by Marshal, not Equal after re-parse *)
Definition s6 := SrcText "1 1 udp 1 1.2.3.4 5 typ srflx raddr  rport 7".
Theorem F_C16_reparse_empty_raddr_refuted : built s6 = true /\ roundtrip_equal s6 = false.
Proof. split; vm_compute; reflexivity. Qed.

(* 7. a 6-byte nomination attribute is accepted *)
Theorem F_C16_nomination_size_refuted :
  nomination_get 49153 [(49153, [9; 1; 2; 3; 4; 5])] = AOk 66051.
Proof. vm_compute; reflexivity. Qed.
