(* C15 findings: statements the faithful model REFUTES (witnesses by vm_compute).  Not part of the
   default build; allowed to stop compiling when pion/ice is repaired and the model follows.
   Build:  cd /verif/coq && coqc -q -R . Ice Findings/F_C15.v *)
From Coq Require Import ZArith Bool String Ascii List Arith.
From Ice Require Import Gen.Consts Model.PrioSpec Model.TcpMux Model.TcpMuxSpec.
Import ListNotations.
Local Open Scope string_scope.

Definition fcfg : cfg := mkCfg true true false true true false.
Definition fcfg_repaired : cfg := mkCfg true true false true false true.
Definition fcfg_wbuf : cfg := mkCfg true true true true true false.

(* D1a. RemoveConnByUfrag(u) immediately followed by GetConnByUfrag(u, same local IP): the watcher
   goroutine of the removed packet conn (createConn's go func: <-CloseChannel();
   removeConnByUfragAndLocalHost(ufrag, key)) runs afterwards and removes AND CLOSES the new packet
   conn, because it removes by key, not by identity.  "The packet conn handed out for u stays the
   packet conn of u until Remove/Close" is refuted: handle 1 is open, nothing in the history after its
   GetConnByUfrag removes or closes it, yet its packet conn is closed and unregistered, and a client
   naming u is routed to a fresh provisional conn instead. *)
Theorem F_C15_stale_watcher_rm_get_refuted :
  exists ops h p,
    let s := run fcfg init ops in
    hnd s h = Some (p, false) /\ p_closed (pc s p) = true /\ mp s "u" false "10.0.0.1" = None /\
    ops = [OGet 0 "u" false "10.0.0.1"; ORemove "u"; OGet h "u" false "10.0.0.1"; OWatcher 0].
Proof. exists [OGet 0 "u" false "10.0.0.1"; ORemove "u"; OGet 1 "u" false "10.0.0.1"; OWatcher 0], 1, 1. vm_compute. auto. Qed.

(* D1b. the last handle is closed (or the alive timer fires) and GetConnByUfrag runs before the
   watcher: it returns the CLOSED packet conn that is still registered (GetConnByUfrag does not test
   whether the conn it found is closed), which the watcher then unregisters *)
Theorem F_C15_get_returns_closed_refuted :
  exists ops h p,
    let s := run fcfg init ops in
    hnd s h = Some (p, false) /\ p_closed (pc s p) = true /\
    ops = [OGet 0 "u" false "10.0.0.1"; OHClose 0; OGet h "u" false "10.0.0.1"].
Proof. exists [OGet 0 "u" false "10.0.0.1"; OHClose 0; OGet 1 "u" false "10.0.0.1"], 1, 0. vm_compute. auto. Qed.

Definition fm_ok (u : string) : first_msg := mkFirst 32 true (Some (u ++ ":r")) "BIND".

Theorem F_C15_expiry_get_returns_closed_refuted :
  exists ops h p,
    let s := run fcfg init ops in
    hnd s h = Some (p, false) /\ p_closed (pc s p) = true /\
    ops = [OAccept 0 "192.0.2.1:5001" false "10.0.0.1" true; OFirst 0 (fm_ok "u"); OAttach 0;
           OExpire "u" false "10.0.0.1"; OGet h "u" false "10.0.0.1"].
Proof.
  exists [OAccept 0 "192.0.2.1:5001" false "10.0.0.1" true; OFirst 0 (fm_ok "u"); OAttach 0;
          OExpire "u" false "10.0.0.1"; OGet 1 "u" false "10.0.0.1"], 1, 0. vm_compute. auto.
Qed.

(* D2. with write buffering, WriteTo of a payload whose frame (payload + 2) exceeds receiveMTU reports
   success and nothing reaches the peer's TCP connection *)
Fixpoint rep (n : nat) : string := match n with O => EmptyString | S k => String "a"%char (rep k) end.

Theorem F_C15_buffered_large_write_refuted :
  exists ops b,
    let s := run fcfg_wbuf init ops in
    String.length b = 8191 /\
    snd (step fcfg_wbuf s (OWrite 0 "192.0.2.1:5001" b)) = XN 8191 /\
    c_out (conn (fst (step fcfg_wbuf s (OWrite 0 "192.0.2.1:5001" b))) 0) = [].
Proof.
  exists [OGet 0 "u" false "10.0.0.1"; OAccept 0 "192.0.2.1:5001" false "10.0.0.1" true; OFirst 0 (fm_ok "u"); OAttach 0],
         (rep 8191).
  vm_compute. auto.
Qed.

(* with the repair (cf_byid = true) the same schedules leave the new packet conn open and registered *)
Example F_C15_repair_rm_get :
  let s := run fcfg_repaired init [OGet 0 "u" false "10.0.0.1"; ORemove "u"; OGet 1 "u" false "10.0.0.1"; OWatcher 0] in
  hnd s 1 = Some (1, false) /\ p_closed (pc s 1) = false /\ mp s "u" false "10.0.0.1" = Some 1.
Proof. vm_compute. auto. Qed.

Example F_C15_repair_hclose_get :
  let s := run fcfg_repaired init [OGet 0 "u" false "10.0.0.1"; OHClose 0; OGet 1 "u" false "10.0.0.1"; OWatcher 0] in
  hnd s 1 = Some (1, false) /\ p_closed (pc s 1) = false /\ mp s "u" false "10.0.0.1" = Some 1.
Proof. vm_compute. auto. Qed.

(* the monitor rejects what these histories show at the API (the observations below are the model's,
   and the implementation's: see the replays under findings/) *)
Definition o_ (a : out) : vobs := mkO a XSkip.
Example F_C15_monitor_rejects_stale_watcher :
  failed (C15_checks true false true
    [ (VGet 0 "u" false "10.0.0.1", o_ XOk);
      (VRmGet "u" 1 false "10.0.0.1", mkO XOk XOk);
      (VRead 1, o_ XClosed) ]) = ["conn_closed_without_cause"].
Proof. vm_compute. reflexivity. Qed.

Example F_C15_monitor_rejects_lost_write :
  failed (C15_checks true true true
    [ (VGet 0 "u" false "10.0.0.1", o_ XOk);
      (VAcc 0 "192.0.2.1:5001" false "10.0.0.1" true, o_ XOk);
      (VFirst 0 (fm_ok "u"), o_ XOpen);
      (VWrite 0 "192.0.2.1:5001" "lost", o_ (XN 4));
      (VCRecv 0, o_ XNone) ]) = ["write_lost"].
Proof. vm_compute. reflexivity. Qed.
