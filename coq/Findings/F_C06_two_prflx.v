(* C06: "the checklist contains each (local, remote) pair at most once" is refuted by the faithful
   model (and by pion/ice: known finding C06, replay findings/known/C06-two-prflx-superseded.json).
   Two DISTINCT peer-reflexive remote candidates can sit on one transport address: one discovered from
   an inbound check, one signalled by the peer (a signalled prflx candidate carries a related address, so
   it is not Equal to the discovered one and is added next to it, with a pair of its own).  When the
   signalled host/srflx candidate for that address arrives, it supersedes BOTH prflx candidates
   (RFC 8838 11.4), replaceRemoteInPairs rewrites both pairs onto the same new remote, and the
   checklist holds two pairs with the same local and remote candidate.
   Not part of the default build. *)
From Coq Require Import ZArith Bool List.
From Ice Require Import Model.AgentTypes Model.AgentCore Gen.Consts.
Import ListNotations.
Local Open Scope Z_scope.

Definition cfg := mkConfig false 5 7 5000000000 false 25000000000 0 0 0 0 0 [] false false 1.
Definition l1 := mkCand 1 1 1 (mkAddr false 167772161 5000) 0 2130706431 1 None.
Definition x := mkAddr false 3405803854 6010.
Definition req tx := mkMsg 0 1 tx (Some (1, 3)) (Some 2) false (Some (true, 9)) (Some 1000) None None None.
Definition signalled_prflx := mkCand 101 3 1 x 0 1862270975 1 (Some (168364297, 1)).
Definition signalled_host := mkCand 102 1 1 x 0 2130706431 1 None.
Definition ops := [AddLocal l1; Start false 3 4; InStun 1 x (req 2000001); AddRemote signalled_prflx; AddRemote signalled_host].

Definition same_pair (p q : pair) : bool :=
  (c_h (p_loc p) =? c_h (p_loc q)) && (c_net (p_rem p) =? c_net (p_rem q)) && addr_eqb (c_addr (p_rem p)) (c_addr (p_rem q))
  && (c_typ (p_rem p) =? c_typ (p_rem q)).

Theorem C06_no_duplicate_pairs_refuted :
  exists cfg ops p q,
    let s := fst (run cfg 1 2 ops) in
    In p (s_checklist s) /\ In q (s_checklist s) /\ p_id p <> p_id q /\ same_pair p q = true.
Proof.
  exists cfg, ops.
  eexists (nth 0 (s_checklist (fst (run cfg 1 2 ops))) _), (nth 1 (s_checklist (fst (run cfg 1 2 ops))) _).
  vm_compute. repeat split; auto. discriminate.
  Unshelve. all: exact (mkPair 0 l1 l1 false 0 false false None 0 None 0 0 0 0 0 0 0 0).
Qed.
