(* C14: statements of the property that the faithful model of the PINNED code refutes.
   Not part of the default build (they stop holding / compiling once the defects are fixed and
   [current] in Model/Framing.v is updated).  Compile with
     coqc -q -R /verif/coq Ice /verif/coq/Findings/F_C14.v *)
From Coq Require Import ZArith NArith Bool String Ascii List Arith Lia.
From Ice Require Import Model.PrioSpec Model.Framing Gen.Consts Proofs.FramingProofs.
Import ListNotations.
Local Open Scope nat_scope.

(* C14_oversize_write for the pinned writeStreamingPacket: a packet longer than 65535 bytes is
   written in full behind a length header that wrapped around, and no error is returned *)
Theorem C14_oversize_write_refuted :
  exists p : bytes,
    (65535 < N.of_nat (length p))%N /\
    write_streaming_packet current None p <> ([], 0, Some err_other) /\
    write_streaming_packet current None p
      = ([put_uint16 (N.of_nat (length p) mod 65536) ++ p], length p, None).
Proof.
  exists (repeat zero_byte (N.to_nat 70000)).
  assert (H : (65535 < N.of_nat (length (repeat zero_byte (N.to_nat 70000))))%N).
  { rewrite repeat_length, N2Nat.id. reflexivity. }
  split; [exact H|]. rewrite (oversize_write_current _ H). split; [discriminate | reflexivity].
Qed.
Print Assumptions C14_oversize_write_refuted.

(* the header the peer will see for 70000 bytes: 4464 *)
Example C14_oversize_header : (70000 mod 65536 = 4464)%N /\ put_uint16 4464 = ["017"%char; "p"%char].
Proof. split; reflexivity. Qed.

(* C14_write_read_composition for the pinned bufferedConn (WriteBufferSize > 0): a packet of
   receiveMTU bytes is accepted and silently dropped *)
Theorem C14_buffered_mtu_packet_refuted :
  exists p : bytes,
    length p <= mtu /\ pc_write_to current 1 p = ([], length p, None).
Proof.
  set (p := repeat zero_byte mtu). assert (L : length p = mtu) by apply repeat_length.
  exists p. split; [lia|].
  apply buffered_drop_current; rewrite L; assert (M := mtu_val); lia.
Qed.
Print Assumptions C14_buffered_mtu_packet_refuted.

(* tcpPacketConn.ReadFrom(b) with len(b) < len(packet) <= cap(b) *)
Theorem C14_readfrom_len_refuted :
  exists (blen bcap : nat) (d : bytes),
    blen < length d /\ length d <= bcap /\
    exists n d', pc_read_from current blen bcap (EvPkt d) = RFOk n d' /\ blen < n /\ d' <> d.
Proof.
  exists 1, 2, ["A"%char; "B"%char]. repeat split; try (simpl; lia).
  eexists _, _. split; [apply readfrom_cap_current; simpl; lia|]. split; [simpl; lia | discriminate].
Qed.
Print Assumptions C14_readfrom_len_refuted.
