(* Finding (C08): RenominateCandidate is the one public method that never consults the closed
   flag (agent.go: no loop.Run, no Err() check).  The agent-core model follows the code: after
   Close it still registers a pending transaction and attempts a STUN send, and returns nil
   instead of the closed error.  Witness by computation.  On the real agent the same is shown by
   suite "close" (monitor checks C08.later_calls_closed_error:RenominateCandidate and
   C08.later_calls_no_effect:RenominateCandidate).  Not part of the default build. *)
From Coq Require Import ZArith Bool List.
From Ice Require Import Model.AgentTypes Model.AgentCore Gen.Consts Proofs.CloseFinalProofs.
Import ListNotations.
Local Open Scope Z_scope.

Definition f_pre : list op := [AddLocal demo_cL; AddRemote demo_cR; Start true 7 8; Close].

Theorem C08_later_calls_without_effect_refuted :
  exists cfg lu lp pre o,
    let s := fst (run cfg lu lp pre) in
    s_closed s = true /\
    (exists lh dst m, In (OSend lh dst m) (snd (step cfg s o))) /\
    In (ORet ROk) (snd (step cfg s o)) /\
    s_pending (fst (step cfg s o)) <> s_pending s.
Proof.
  exists demo_cfg, 1, 2, f_pre, (Renominate demo_cL demo_cR 5). cbv zeta.
  split; [vm_compute; reflexivity|]. split; [|split].
  - vm_compute. eexists _, _, _. left. reflexivity.
  - vm_compute. right. left. reflexivity.
  - vm_compute. discriminate.
Qed.
