(* C19: the documented precedence "CIDR > global" does not hold under a non-empty lookup interface.
   The rule list is the one of TestAddressRewriteRuleOrdering (which pins this behaviour):
     global -> 203.0.113.200 ; CIDR 10.0.0.0/24 -> 198.51.100.5 ; iface eth0 -> 198.51.100.6
   looked up for 10.0.0.6 on wlan0: documented answer 198.51.100.5, the code answers 203.0.113.200.
   Not part of the default build. *)
From Coq Require Import ZArith Bool String List.
From Ice Require Import Model.PrioSpec Model.Rewrite Proofs.RewriteProofs.
Import ListNotations.
Local Open Scope Z_scope.

Definition g200 : addr := (true, 3405803976).   (* 203.0.113.200 *)
Definition c5 : addr := (true, 3325256709).     (* 198.51.100.5 *)
Definition c6 : addr := (true, 3325256710).     (* 198.51.100.6 *)
Definition ordering_rules : list rule :=
  [ mkRule [(1, SGood g200)] SEmpty "" CNone 1 0 [];
    mkRule [(2, SGood c5)] SEmpty "" (CGood (true, 167772160, 24)) 1 0 [];
    mkRule [(3, SGood c6)] SEmpty "eth0" CNone 1 0 [] ].

Theorem C19_lookup_spec_refuted :
  exists rs m ty loc iface, compile rs = COk m /\ lookup m ty loc iface <> spec_lookup rs ty loc iface.
Proof.
  exists ordering_rules. eexists. exists 1, (true, 167772166), "wlan0"%string.
  split; [vm_compute; reflexivity|]. vm_compute. intros H. discriminate H.
Qed.

(* the excluded class is exactly where it happens *)
Example witness_is_in_excluded_class :
  cidr_only_vs_global ordering_rules 1 (true, 167772166) "wlan0" = true /\
  spec_lookup ordering_rules 1 (true, 167772166) "wlan0" = ([c5], true, 1) /\
  code_precedence_lookup ordering_rules 1 (true, 167772166) "wlan0" = ([g200], true, 1) /\
  spec_lookup ordering_rules 1 (true, 167772166) "" = code_precedence_lookup ordering_rules 1 (true, 167772166) "".
Proof. repeat split; vm_compute; reflexivity. Qed.
